// C16: a transaction's hash and signature bind every signed field.
//
// Oracles (all derived from the property text, none from the implementation):
//   - Hash is a function of the transaction minus {Signature, Header}: changing Signature or Header leaves it
//     unchanged, changing the proto value of any other field changes it (metamorphic, per field, reflect-driven
//     so that a field added to the proto later is mutated automatically);
//   - Clone preserves Hash and FullHash; FullHash additionally depends on the signature;
//   - tx.Sign(ty, priv) followed by tx.CheckSign(h) is true for every registered key type when the type is
//     enabled at h; it is false after altering any signed field (every field except Signature, i.e. including
//     Header/Next/GroupCount), the public key bytes or the signature bytes (generic byte edits only: bit flip,
//     truncate, extend, zero, substitute; no algebraic re-encodings such as ECDSA s -> n-s).
//
// Enable-height gating needs non-default process-global crypto configuration and is therefore evaluated in a
// child process (harness/cmd/c16_child) by TestGenEnableHeights.
package c16

import (
	"bytes"
	"context"
	"crypto/sha256"
	"encoding/binary"
	"encoding/hex"
	"encoding/json"
	"fmt"
	"math"
	"math/big"
	"math/rand"
	"os"
	"os/exec"
	"reflect"
	"sort"
	"strconv"
	"strings"
	"testing"
	"time"

	"github.com/33cn/chain33/common/crypto"
	clog "github.com/33cn/chain33/common/log"
	rpctypes "github.com/33cn/chain33/rpc/ethrpc/types"
	_ "github.com/33cn/chain33/system"
	"github.com/33cn/chain33/system/crypto/ed25519"
	"github.com/33cn/chain33/system/crypto/none"
	"github.com/33cn/chain33/system/crypto/secp256k1"
	"github.com/33cn/chain33/system/crypto/secp256k1eth"
	ethtypes "github.com/33cn/chain33/system/crypto/secp256k1eth/types"
	"github.com/33cn/chain33/system/crypto/secp256r1"
	"github.com/33cn/chain33/system/crypto/sm2"
	cty "github.com/33cn/chain33/system/dapp/coins/types"
	"github.com/33cn/chain33/types"
	ecommon "github.com/ethereum/go-ethereum/common"
	etypes "github.com/ethereum/go-ethereum/core/types"
	ethcrypto "github.com/ethereum/go-ethereum/crypto"
	"github.com/golang/protobuf/proto"
	gmsm2 "github.com/tjfoc/gmsm/sm2"
	"pgregory.net/rapid"
	"verifharness/lib"
)

const prop = "C16"

// Known-finding ids (see TestKnown_* for the minimal cases).
const (
	kSigTrailing  = "C16-sig-trailing-bytes"           // bytes appended to a signature are ignored (all drivers but secp256k1eth); ed25519 also re-pads stripped trailing zero bytes
	kSm2PubPanic  = "C16-sm2-pubkey-panic"             // sm2: public key whose X is not on the curve makes CheckSign panic (nil big.Int)
	kSm2PubPrefix = "C16-sm2-pubkey-prefix"            // sm2: first public key byte other than 02/03/04 is accepted
	kPubExtend65  = "C16-pubkey-extended-to-65"        // sm2/secp256r1: 33-byte key followed by 32 arbitrary bytes is accepted
	kEthNote      = "C16-secp256k1eth-note-honest"     // secp256k1eth: honest signature over a payload carrying a non-empty note does not verify
	kEthWrapped   = "C16-ethwrapped-envelope-unsigned" // secp256k1eth: in a wrapped Ethereum transaction only nonce/amount/to/code are tied to the signature; Fee, Expire, To, ChainID, group fields ... can be altered
)

const evmChainID = 3999

var cfg *types.Chain33Config

func TestMain(m *testing.M) {
	clog.SetLogLevel("crit") // the drivers log every rejected signature at error level
	cfg = types.NewChain33Config(types.GetDefaultCfgstring())
	// What every node does once at start-up (common/crypto/client): run the drivers' init functions. An empty
	// crypto.Config leaves every enable flag and enable height at its default; the only effect is secp256k1eth
	// learning its EVM chain id and coin precision (without it its wrapped-Ethereum path divides by zero).
	crypto.Init(&crypto.Config{}, map[string][]byte{secp256k1eth.Name: []byte(fmt.Sprintf(`{"evmChainID":%d}`, evmChainID))})
	lib.Main(m)
}

type sigType struct {
	Name string
	ID   int32
}

// The keyed signature types registered by system/crypto/init ("none" has no key and is covered by the height test).
var sigTypes = []sigType{
	{secp256k1.Name, secp256k1.ID}, {ed25519.Name, ed25519.ID}, {sm2.Name, sm2.ID},
	{secp256r1.Name, secp256r1.ID}, {secp256k1eth.Name, secp256k1eth.ID},
}

// privKey derives a valid private key for every curve from a drawn 64-bit seed: sha256 output with the top bit
// cleared is non-zero and below every group order used here, so the generator is sound by construction.
func privKey(t lib.TB, name string, seed uint64) crypto.PrivKey {
	var b [12]byte
	binary.LittleEndian.PutUint64(b[:], seed)
	copy(b[8:], "c16k")
	h := sha256.Sum256(b[:])
	h[0] &= 0x7f
	c, err := crypto.Load(name, -1)
	if err != nil {
		lib.Inconclusive("driver %s not registered: %v", name, err)
	}
	k, err := c.PrivKeyFromBytes(h[:])
	if err != nil || k == nil {
		lib.Inconclusive("PrivKeyFromBytes(%s): %v", name, err)
	}
	return k
}

// ---------------------------------------------------------------------------------------------------------
// generators

func genBytes(max int) *rapid.Generator[[]byte] {
	return rapid.OneOf(rapid.Just([]byte(nil)), rapid.SliceOfN(rapid.Byte(), 1, max), rapid.SliceOfN(rapid.Byte(), 1, 8))
}

func genHash() *rapid.Generator[[]byte] {
	return rapid.OneOf(rapid.Just([]byte(nil)), rapid.SliceOfN(rapid.Byte(), 32, 32), rapid.SliceOfN(rapid.Byte(), 1, 40))
}

func genInt64() *rapid.Generator[int64] {
	return rapid.OneOf(rapid.Just(int64(0)), rapid.Int64Range(1, 1000000), rapid.Int64(), rapid.SampledFrom([]int64{-1, math.MaxInt64, math.MinInt64, 1 << 40}))
}

func genPayload() *rapid.Generator[[]byte] {
	note := rapid.OneOf(rapid.Just([]byte(nil)), rapid.SliceOfN(rapid.Byte(), 1, 20), rapid.Just([]byte("memo")))
	transfer := rapid.Custom(func(t *rapid.T) []byte {
		return types.Encode(&cty.CoinsAction{Ty: cty.CoinsActionTransfer, Value: &cty.CoinsAction_Transfer{Transfer: &types.AssetsTransfer{
			Amount: rapid.Int64Range(0, 1<<40).Draw(t, "amount"), Note: note.Draw(t, "note"), To: rapid.StringMatching(`1[A-Za-z0-9]{0,33}`).Draw(t, "to")}}})
	})
	evm := rapid.Custom(func(t *rapid.T) []byte {
		return types.Encode(&types.EVMContractAction4Chain33{Amount: rapid.Uint64Range(0, 1<<40).Draw(t, "amount"), GasLimit: rapid.Uint64Range(0, 1<<20).Draw(t, "gas"),
			GasPrice: 1, Para: genBytes(40).Draw(t, "para"), Note: rapid.SampledFrom([]string{"", "", "memo", "deadbeef", "0x01"}).Draw(t, "evmnote"),
			ContractAddr: rapid.SampledFrom([]string{"", "0xabc"}).Draw(t, "caddr")})
	})
	return rapid.OneOf(genBytes(300), genBytes(300), transfer, evm)
}

var execers = []string{"coins", "none", "manage", "evm", "user.evm.x", "user.p.para.coins", "user.p.para.evm", "user.write", "token", ""}

func genTx(t *rapid.T, withSig bool) *types.Transaction {
	tx := &types.Transaction{
		Execer:     rapid.OneOf(rapid.Map(rapid.SampledFrom(execers), func(s string) []byte { return []byte(s) }), genBytes(20)).Draw(t, "execer"),
		Payload:    genPayload().Draw(t, "payload"),
		Fee:        genInt64().Draw(t, "fee"),
		Expire:     genInt64().Draw(t, "expire"),
		Nonce:      genInt64().Draw(t, "nonce"),
		To:         rapid.OneOf(rapid.Just(""), rapid.StringMatching(`[13][A-Za-z0-9]{5,33}`), rapid.StringN(0, 12, 40)).Draw(t, "to"),
		GroupCount: rapid.OneOf(rapid.Just(int32(0)), rapid.Int32Range(2, 20), rapid.Int32()).Draw(t, "groupCount"),
		Header:     genHash().Draw(t, "header"),
		Next:       genHash().Draw(t, "next"),
		ChainID:    rapid.OneOf(rapid.Just(int32(0)), rapid.Int32Range(1, 100), rapid.Int32()).Draw(t, "chainID"),
	}
	if withSig && rapid.Bool().Draw(t, "hasSig") {
		tx.Signature = &types.Signature{Ty: rapid.Int32Range(0, 300).Draw(t, "sigTy"), Pubkey: genBytes(65).Draw(t, "sigPub"), Signature: genBytes(72).Draw(t, "sigSig")}
	}
	return tx
}

// ---------------------------------------------------------------------------------------------------------
// reflect-driven single-field mutation

// txFields lists the proto fields of types.Transaction (exported fields carrying a protobuf tag), in declaration order.
func txFields() []reflect.StructField {
	var fs []reflect.StructField
	rt := reflect.TypeOf((*types.Transaction)(nil)).Elem()
	for i := 0; i < rt.NumField(); i++ {
		if f := rt.Field(i); f.PkgPath == "" && f.Tag.Get("protobuf") != "" {
			fs = append(fs, f)
		}
	}
	return fs
}

func flipBit(b []byte, bit int) []byte {
	c := append([]byte(nil), b...)
	c[(bit/8)%len(c)] ^= 1 << (bit % 8)
	return c
}

// mutateField returns a copy of tx in which exactly the named field has a different proto3 value (nil and empty
// byte strings are the same proto value and are never produced as a "change"), the mutation's label, and whether
// the base value was non-default (the non-triviality rule).
func mutateField(t *rapid.T, tx *types.Transaction, f reflect.StructField) (*types.Transaction, string, bool) {
	c := shallowCopy(tx)
	v := reflect.ValueOf(c).Elem().FieldByName(f.Name)
	label := f.Name + "/"
	switch {
	case v.Kind() == reflect.String: // proto3 strings must stay valid UTF-8: edit whole runes with ASCII replacements
		old := []rune(v.String())
		how := "append"
		if len(old) > 0 {
			how = rapid.SampledFrom([]string{"replace", "replace", "append", "droplast", "clear"}).Draw(t, label+"how")
		}
		nw := append([]rune(nil), old...)
		switch how {
		case "replace":
			i := rapid.IntRange(0, len(old)-1).Draw(t, label+"pos")
			if nw[i] = rapid.RuneFrom([]rune("abcXYZ019")).Draw(t, label+"rune"); nw[i] == old[i] {
				nw[i] = '~'
			}
		case "append":
			nw = append(nw, rapid.RuneFrom([]rune("abcXYZ019")).Draw(t, label+"rune"))
		case "droplast":
			nw = nw[:len(nw)-1]
		case "clear":
			nw = nil
		}
		v.SetString(string(nw))
		return c, label + how, len(old) > 0
	case v.Kind() == reflect.Slice && v.Type().Elem().Kind() == reflect.Uint8:
		old := v.Bytes()
		var nw []byte
		how := "append"
		if len(old) > 0 {
			how = rapid.SampledFrom([]string{"flip", "flip", "append", "droplast", "clear"}).Draw(t, label+"how")
		}
		switch how {
		case "flip":
			nw = flipBit(old, rapid.IntRange(0, len(old)*8-1).Draw(t, label+"bit"))
		case "append":
			nw = append(append([]byte(nil), old...), rapid.Byte().Draw(t, label+"byte"))
		case "droplast":
			nw = append([]byte(nil), old[:len(old)-1]...)
		case "clear":
			nw = nil
		}
		v.SetBytes(nw)
		return c, label + how, len(old) > 0
	case v.CanInt():
		old := v.Int()
		how := "add"
		if old != 0 {
			how = rapid.SampledFrom([]string{"add", "add", "zero", "neg"}).Draw(t, label+"how")
		}
		bits := v.Type().Bits()
		nw := old
		switch how {
		case "add":
			d := rapid.OneOf(rapid.SampledFrom([]int64{1, -1, 256, 1 << 20}), rapid.Int64Range(-1000, 1000)).Draw(t, label+"delta")
			if d == 0 {
				d = 1
			}
			nw = old + d
		case "zero":
			nw = 0
		case "neg":
			nw = -old
		}
		if bits == 32 {
			nw = int64(int32(nw))
		}
		if nw == old { // wrap-around of min value under negation, or delta lost in truncation
			nw = old ^ 1
		}
		v.SetInt(nw)
		return c, label + how, old != 0
	case v.Kind() == reflect.Bool:
		old := v.Bool()
		v.SetBool(!old)
		return c, label + "not", old
	case v.Type() == reflect.TypeOf((*types.Signature)(nil)):
		old := tx.Signature
		if old == nil {
			c.Signature = &types.Signature{Ty: 1, Pubkey: []byte{2}, Signature: []byte{3}}
			return c, label + "set", false
		}
		switch rapid.SampledFrom([]string{"nil", "ty", "pub", "sig"}).Draw(t, label+"how") {
		case "nil":
			c.Signature = nil
			return c, label + "nil", true
		case "ty":
			c.Signature = &types.Signature{Ty: old.Ty + 1, Pubkey: old.Pubkey, Signature: old.Signature}
			return c, label + "ty", true
		case "pub":
			c.Signature = &types.Signature{Ty: old.Ty, Pubkey: append(append([]byte(nil), old.Pubkey...), 7), Signature: old.Signature}
			return c, label + "pub", true
		default:
			c.Signature = &types.Signature{Ty: old.Ty, Pubkey: old.Pubkey, Signature: append(append([]byte(nil), old.Signature...), 7)}
			return c, label + "sig", true
		}
	}
	lib.Inconclusive("types.Transaction has a field of a kind this harness cannot mutate: %s %s", f.Name, f.Type)
	return nil, "", false
}

// shallowCopy copies every exported field by reflection (independent of the hand-written CloneTx under test).
func shallowCopy(tx *types.Transaction) *types.Transaction {
	c := &types.Transaction{}
	src, dst := reflect.ValueOf(tx).Elem(), reflect.ValueOf(c).Elem()
	for _, f := range txFields() {
		dst.FieldByName(f.Name).Set(src.FieldByName(f.Name))
	}
	return c
}

func txHex(tx *types.Transaction) string { return hex.EncodeToString(types.Encode(tx)) }

// ---------------------------------------------------------------------------------------------------------
// property 1: hash / clone

func TestPropHashClone(t *testing.T) {
	defer lib.Flush()
	fields := txFields()
	if len(fields) < 11 {
		lib.Inconclusive("expected >= 11 proto fields in types.Transaction, found %d", len(fields))
	}
	rapid.Check(t, func(t *rapid.T) {
		tx := genTx(t, true)
		base := txHex(tx)
		fail := func(what, format string, a ...interface{}) {
			lib.Violation(t, prop, "TestPropHashClone", map[string]interface{}{"tx": base, "mutation": what}, format, a...)
		}
		lib.Eval()
		h, fh := tx.Hash(), tx.FullHash()
		if !bytes.Equal(h, tx.Hash()) || !bytes.Equal(fh, tx.FullHash()) {
			fail("repeat", "Hash/FullHash not repeatable")
		}
		cl := tx.Clone()
		if !bytes.Equal(cl.Hash(), h) {
			fail("clone", "Clone().Hash() %x != Hash() %x", cl.Hash(), h)
		}
		if !bytes.Equal(cl.FullHash(), fh) {
			fail("clone", "Clone().FullHash() %x != FullHash() %x", cl.FullHash(), fh)
		}
		if txHex(tx) != base {
			fail("purity", "Hash/FullHash/Clone modified the transaction")
		}
		for _, f := range fields {
			for rep := 0; rep < 2; rep++ {
				m, label, nonDefault := mutateField(t, tx, f)
				lib.Eval()
				lib.Class("hash:" + f.Name)
				ignored := f.Name == "Signature" || f.Name == "Header"
				mh, mfh := m.Hash(), m.FullHash()
				if ignored && !bytes.Equal(mh, h) {
					fail(label, "Hash changed when only %s changed", f.Name)
				}
				if !ignored && bytes.Equal(mh, h) {
					fail(label, "Hash unchanged after changing %s", f.Name)
				}
				if bytes.Equal(mfh, fh) {
					fail(label, "FullHash unchanged after changing %s", f.Name)
				}
				mc := m.Clone()
				if !bytes.Equal(mc.Hash(), mh) || !bytes.Equal(mc.FullHash(), mfh) {
					fail(label, "Clone of the mutated transaction has a different Hash/FullHash")
				}
				if nonDefault {
					lib.NonTrivial(lib.Fingerprint(h, "hash", label, mfh))
					if lib.SampleCount() < 2 {
						lib.Sample(map[string]interface{}{"test": "hash", "tx": base, "mutation": label})
					}
				}
			}
		}
	})
}

// ---------------------------------------------------------------------------------------------------------
// property 2: sign / verify

// safeCheck runs CheckSign and converts a panic into a value (no chain33 lock is held on this path).
func safeCheck(tx *types.Transaction, h int64) (ok bool, panicked interface{}) {
	defer func() { panicked = recover() }()
	return tx.CheckSign(h), nil
}

// noteCarrying is the exact signature of known finding kEthNote: the signed message is one in which the
// secp256k1eth verifier finds a non-empty note and therefore expects a wrapped Ethereum transaction. The driver's
// own decoder is used so that the match is exact; it takes no part in the oracle.
func noteCarrying(tx *types.Transaction) bool {
	c := shallowCopy(tx)
	c.Signature = nil
	a, err := ethtypes.DecodeTxAction(types.Encode(c))
	return err == nil && len(a.Note) > 0
}

// sm2XOnCurve: does the 32-byte X have a square root of x^3+ax+b (signature of finding kSm2PubPanic)?
func sm2XOnCurve(x []byte) bool {
	p := gmsm2.P256Sm2().Params()
	X := new(big.Int).SetBytes(x)
	a := new(big.Int).Sub(p.P, big.NewInt(3)) // sm2 curve: a = p-3
	y2 := new(big.Int).Exp(X, big.NewInt(3), p.P)
	y2.Add(y2, new(big.Int).Mul(a, X)).Add(y2, p.B).Mod(y2, p.P)
	return new(big.Int).ModSqrt(y2, p.P) != nil
}

type sigMut struct {
	Kind string // pub_* / sig_*
	Tx   *types.Transaction
}

// sigMutations: generic byte edits of the public key and the signature bytes (never algebraic re-encodings).
func sigMutations(t *rapid.T, signed, otherMsg *types.Transaction, otherPub []byte, tag string) []sigMut {
	s := signed.Signature
	with := func(pub, sig []byte) *types.Transaction {
		c := shallowCopy(signed)
		c.Signature = &types.Signature{Ty: s.Ty, Pubkey: pub, Signature: sig}
		return c
	}
	ext := func(b []byte, n int) []byte {
		return append(append([]byte(nil), b...), rapid.SliceOfN(rapid.Byte(), n, n).Draw(t, tag+"ext")...)
	}
	var ms []sigMut
	for i := 0; i < 3; i++ {
		ms = append(ms, sigMut{"pub_flip", with(flipBit(s.Pubkey, rapid.IntRange(0, len(s.Pubkey)*8-1).Draw(t, tag+"pbit")), s.Signature)})
		ms = append(ms, sigMut{"sig_flip", with(s.Pubkey, flipBit(s.Signature, rapid.IntRange(0, len(s.Signature)*8-1).Draw(t, tag+"sbit")))})
	}
	ms = append(ms,
		sigMut{"pub_flip", with(flipBit(s.Pubkey, rapid.IntRange(0, 7).Draw(t, tag+"pbit0")), s.Signature)}, // format byte
		sigMut{"pub_truncate", with(append([]byte(nil), s.Pubkey[:rapid.IntRange(0, len(s.Pubkey)-1).Draw(t, tag+"ptr")]...), s.Signature)},
		sigMut{"pub_extend", with(ext(s.Pubkey, rapid.SampledFrom([]int{1, 2, 31, 32, 33}).Draw(t, tag+"pext")), s.Signature)},
		sigMut{"pub_zero", with(make([]byte, len(s.Pubkey)), s.Signature)},
		sigMut{"pub_other", with(otherPub, s.Signature)},
		sigMut{"sig_truncate", with(s.Pubkey, append([]byte(nil), s.Signature[:rapid.IntRange(0, len(s.Signature)-1).Draw(t, tag+"str")]...))},
		sigMut{"sig_truncate", with(s.Pubkey, append([]byte(nil), s.Signature[:len(s.Signature)-1]...))},
		sigMut{"sig_extend", with(s.Pubkey, ext(s.Signature, rapid.IntRange(1, 8).Draw(t, tag+"sext")))},
		sigMut{"sig_zero", with(s.Pubkey, make([]byte, len(s.Signature)))},
		sigMut{"sig_othermsg", with(s.Pubkey, otherMsg.Signature.Signature)},
		sigMut{"sig_nil", func() *types.Transaction { c := shallowCopy(signed); c.Signature = nil; return c }()},
	)
	return ms
}

// knownAccepted returns the id of the listed known finding whose exact signature the accepted/panicking mutation
// matches, or "".
func knownSigFinding(ty sigType, signed *types.Transaction, m sigMut, panicked bool) string {
	op, os := signed.Signature.Pubkey, signed.Signature.Signature
	var mp, msig []byte
	if m.Tx.Signature != nil {
		mp, msig = m.Tx.Signature.Pubkey, m.Tx.Signature.Signature
	}
	switch {
	case panicked && ty.Name == sm2.Name && strings.HasPrefix(m.Kind, "pub_") && (len(mp) == 33 || len(mp) == 65) && mp[0] != 4 && !sm2XOnCurve(mp[1:33]):
		return kSm2PubPanic
	case panicked:
		return ""
	case m.Kind == "sig_extend" && ty.Name != secp256k1eth.Name && len(msig) > len(os) && bytes.Equal(msig[:len(os)], os):
		return kSigTrailing
	case m.Kind == "sig_truncate" && ty.Name == ed25519.Name && len(msig) < len(os) && bytes.Equal(msig, os[:len(msig)]) && len(bytes.Trim(os[len(msig):], "\x00")) == 0:
		return kSigTrailing
	case m.Kind == "pub_flip" && ty.Name == sm2.Name && len(mp) == 33 && bytes.Equal(mp[1:], op[1:]) && mp[0] != 2 && mp[0] != 3 && mp[0] != 4:
		return kSm2PubPrefix
	case m.Kind == "pub_extend" && (ty.Name == sm2.Name || ty.Name == secp256r1.Name) && len(mp) == 65 && bytes.Equal(mp[:33], op):
		return kPubExtend65
	}
	return ""
}

var heights = []int64{0, 0, 1, 2, 1000, 1 << 40, math.MaxInt64}

func TestPropSignBind(t *testing.T) {
	defer lib.Flush()
	fields := txFields()
	rapid.Check(t, func(t *rapid.T) {
		base := genTx(t, false)
		other := genTx(t, false)
		if bytes.Equal(types.Encode(other), types.Encode(base)) {
			other.Nonce++
		}
		seed := rapid.Uint64().Draw(t, "keySeed")
		addrID := rapid.Int32Range(0, 2).Draw(t, "addrID")
		h := rapid.SampledFrom(heights).Draw(t, "height")
		for _, ty := range sigTypes {
			priv := privKey(t, ty.Name, seed)
			signID := types.EncodeSignID(ty.ID, addrID)
			signed := shallowCopy(base)
			signed.Sign(signID, priv)
			om := shallowCopy(other)
			om.Sign(signID, priv)
			otherPub := privKey(t, ty.Name, seed+1).PubKey().Bytes()
			rendering := func(kind string, m *types.Transaction) map[string]interface{} {
				r := map[string]interface{}{"type": ty.Name, "signID": signID, "height": h, "signedTx": txHex(signed), "mutation": kind}
				if m != nil {
					r["mutatedTx"] = txHex(m)
				}
				return r
			}
			lib.Eval()
			lib.Class("sign:" + ty.Name)
			ok, pv := safeCheck(signed, h)
			if pv != nil {
				lib.Violation(t, prop, "TestPropSignBind", rendering("honest", nil), "CheckSign panicked on an honestly signed transaction: %v", pv)
			}
			if !ok {
				if ty.Name == secp256k1eth.Name && noteCarrying(base) && lib.Known(kEthNote) {
					lib.ExcludedKnown(kEthNote)
					continue
				}
				lib.Violation(t, prop, "TestPropSignBind", rendering("honest", nil), "honest %s signature does not verify at height %d", ty.Name, h)
			}
			if signed.Signature.Ty != signID || !bytes.Equal(signed.Signature.Pubkey, priv.PubKey().Bytes()) {
				lib.Violation(t, prop, "TestPropSignBind", rendering("honest", nil), "Sign stored a different type or public key")
			}
			// the "none" type is disabled by default: the same bytes relabelled as type none must not verify
			relabel := shallowCopy(signed)
			relabel.Signature = &types.Signature{Ty: types.EncodeSignID(none.ID, addrID), Pubkey: signed.Signature.Pubkey, Signature: signed.Signature.Signature}
			if ok, pv := safeCheck(relabel, h); ok || pv != nil {
				lib.Violation(t, prop, "TestPropSignBind", rendering("relabel_none", relabel), "type none verifies at height %d although it is disabled by default (panic=%v)", h, pv)
			}
			// (a) every signed field
			for _, f := range fields {
				if f.Name == "Signature" {
					continue
				}
				m, label, nonDefault := mutateField(t, signed, f)
				lib.Eval()
				lib.Class("field:" + f.Name)
				ok, pv := safeCheck(m, h)
				if pv != nil {
					lib.Violation(t, prop, "TestPropSignBind", rendering(label, m), "CheckSign panicked after altering %s: %v", f.Name, pv)
				}
				if ok {
					lib.Violation(t, prop, "TestPropSignBind", rendering(label, m), "%s signature still verifies after altering signed field %s", ty.Name, f.Name)
				}
				if nonDefault {
					lib.NonTrivial(lib.Fingerprint(signed.Hash(), ty.Name, label, m.Hash(), m.Header))
					if lib.SampleCount() < 3 {
						lib.Sample(rendering(label, m))
					}
				}
			}
			// (b) public key and signature bytes
			for _, m := range sigMutations(t, signed, om, otherPub, ty.Name+"/") {
				if m.Tx.Signature != nil && bytes.Equal(m.Tx.Signature.Pubkey, signed.Signature.Pubkey) && bytes.Equal(m.Tx.Signature.Signature, signed.Signature.Signature) {
					continue // e.g. two messages with the same signature cannot happen, but never assert on an unchanged tx
				}
				lib.Eval()
				lib.Class("bytes:" + m.Kind)
				ok, pv := safeCheck(m.Tx, h)
				if ok || pv != nil {
					lib.Class("accepted:" + ty.Name + ":" + m.Kind)
					if id := knownSigFinding(ty, signed, m, pv != nil); id != "" && lib.Known(id) {
						lib.ExcludedKnown(id)
						continue
					}
					if pv != nil {
						lib.Violation(t, prop, "TestPropSignBind", rendering(m.Kind, m.Tx), "CheckSign panicked on altered %s bytes: %v", m.Kind[:3], pv)
					}
					lib.Violation(t, prop, "TestPropSignBind", rendering(m.Kind, m.Tx), "%s signature still verifies after %s", ty.Name, m.Kind)
				}
				lib.NonTrivial(lib.Fingerprint(signed.FullHash(), ty.Name, m.Kind, m.Tx.FullHash()))
			}
		}
	})
}

// ---------------------------------------------------------------------------------------------------------
// property 2b: secp256k1eth's second signing mode - an Ethereum transaction signed by an Ethereum wallet and wrapped
// into a chain33 transaction by the client library (rpc/ethrpc: eth_sendRawTransaction -> AssembleChain33Tx)

// wrapEth reproduces eth_sendRawTransaction: recover the signature and the sender key from the signed Ethereum
// transaction and let the client library assemble the chain33 transaction.
func wrapEth(stx *etypes.Transaction) (*types.Transaction, string) {
	signer := etypes.NewLondonSigner(stx.ChainId())
	v, r, s := stx.RawSignatureValues()
	cv, err := rpctypes.CaculateRealV(v, stx.ChainId().Uint64(), stx.Type())
	if err != nil {
		return nil, err.Error()
	}
	sig := make([]byte, 65)
	r.FillBytes(sig[:32])
	s.FillBytes(sig[32:64])
	sig[64] = cv
	pub, err := ethcrypto.Ecrecover(signer.Hash(stx).Bytes(), sig)
	if err != nil {
		return nil, err.Error()
	}
	tx := rpctypes.AssembleChain33Tx(stx, sig, pub, cfg)
	if tx == nil {
		return nil, "AssembleChain33Tx returned nil"
	}
	return tx, ""
}

func genEthTx(t *rapid.T) *etypes.Transaction {
	var seed [8]byte
	binary.LittleEndian.PutUint64(seed[:], rapid.Uint64().Draw(t, "ethKeySeed"))
	kb := sha256.Sum256(append(seed[:], "c16eth"...))
	kb[0] &= 0x7f
	key, err := ethcrypto.ToECDSA(kb[:])
	if err != nil {
		lib.Inconclusive("eth key: %v", err)
	}
	shape := rapid.SampledFrom([]string{"transfer", "call", "deploy"}).Draw(t, "ethShape")
	var to *ecommon.Address
	if shape != "deploy" {
		a := ecommon.BytesToAddress(rapid.SliceOfN(rapid.Byte(), 20, 20).Draw(t, "ethTo"))
		to = &a
	}
	var data []byte
	if shape != "transfer" {
		data = rapid.SliceOfN(rapid.Byte(), 1, 80).Draw(t, "ethData")
	}
	value := new(big.Int).Mul(big.NewInt(rapid.Int64Range(0, 1<<40).Draw(t, "ethValue")), big.NewInt(1e10))
	nonce := rapid.Uint64Range(0, 1<<32).Draw(t, "ethNonce")
	gas := rapid.Uint64Range(21000, 5000000).Draw(t, "ethGas")
	var inner etypes.TxData
	// Type-1 (access list) transactions are not generated: the client library's CaculateRealV subtracts 27 from
	// their 0/1 parity, so eth_sendRawTransaction refuses them before any chain33 signature exists (rpc layer, not C16).
	switch rapid.SampledFrom([]string{"legacy", "dynamic"}).Draw(t, "ethType") {
	case "legacy":
		inner = &etypes.LegacyTx{Nonce: nonce, GasPrice: big.NewInt(1e10), Gas: gas, To: to, Value: value, Data: data}
	default:
		inner = &etypes.DynamicFeeTx{ChainID: big.NewInt(evmChainID), Nonce: nonce, GasTipCap: big.NewInt(1e9), GasFeeCap: big.NewInt(1e10), Gas: gas, To: to, Value: value, Data: data}
	}
	stx, err := etypes.SignTx(etypes.NewTx(inner), etypes.NewLondonSigner(big.NewInt(evmChainID)), key)
	if err != nil {
		lib.Inconclusive("eth SignTx: %v", err)
	}
	return stx
}

func TestPropEthWrapped(t *testing.T) {
	defer lib.Flush()
	fields := txFields()
	ty := sigTypes[4]
	rapid.Check(t, func(t *rapid.T) {
		stx := genEthTx(t)
		h := rapid.SampledFrom(heights).Draw(t, "height")
		raw, _ := stx.MarshalBinary()
		signed, why := wrapEth(stx)
		rendering := func(kind string, m *types.Transaction) map[string]interface{} {
			r := map[string]interface{}{"type": "secp256k1eth/wrapped", "height": h, "ethRawTx": hex.EncodeToString(raw), "mutation": kind}
			if signed != nil {
				r["signedTx"] = txHex(signed)
			}
			if m != nil {
				r["mutatedTx"] = txHex(m)
			}
			return r
		}
		lib.Eval()
		lib.Class(fmt.Sprintf("ethwrapped:type%d", stx.Type()))
		if signed == nil {
			lib.Violation(t, prop, "TestPropEthWrapped", rendering("honest", nil), "the client library could not wrap a valid signed Ethereum transaction: %s", why)
		}
		if ok, pv := safeCheck(signed, h); !ok || pv != nil {
			lib.Violation(t, prop, "TestPropEthWrapped", rendering("honest", nil), "honest wrapped Ethereum transaction does not verify at height %d (panic=%v)", h, pv)
		}
		for _, f := range fields {
			if f.Name == "Signature" {
				continue
			}
			m, label, nonDefault := mutateField(t, signed, f)
			lib.Eval()
			lib.Class("ethfield:" + f.Name)
			ok, pv := safeCheck(m, h)
			if pv != nil {
				lib.Violation(t, prop, "TestPropEthWrapped", rendering(label, m), "CheckSign panicked after altering %s: %v", f.Name, pv)
			}
			if ok {
				lib.Class("accepted:ethwrapped:" + f.Name)
				// exact signature of kEthWrapped: a wrapped Ethereum transaction, any envelope field but the nonce
				// (the nonce is cross-checked against the Ethereum transaction and must always be caught)
				if f.Name != "Nonce" && lib.Known(kEthWrapped) {
					lib.ExcludedKnown(kEthWrapped)
					continue
				}
				lib.Violation(t, prop, "TestPropEthWrapped", rendering(label, m), "wrapped Ethereum transaction still verifies after altering signed field %s", f.Name)
			}
			if nonDefault {
				lib.NonTrivial(lib.Fingerprint(raw, "ethwrapped", label, m.Hash(), m.Header))
			}
		}
		om := shallowCopy(signed)
		om.Signature = &types.Signature{Ty: signed.Signature.Ty, Pubkey: signed.Signature.Pubkey, Signature: bytes.Repeat([]byte{0x11}, 65)}
		for _, m := range sigMutations(t, signed, om, privKey(t, ty.Name, 99).PubKey().Bytes(), "ethw/") {
			lib.Eval()
			lib.Class("ethbytes:" + m.Kind)
			if ok, pv := safeCheck(m.Tx, h); ok || pv != nil {
				lib.Violation(t, prop, "TestPropEthWrapped", rendering(m.Kind, m.Tx), "wrapped Ethereum transaction: CheckSign=%v panic=%v after %s", ok, pv, m.Kind)
			}
			lib.NonTrivial(lib.Fingerprint(raw, "ethwrapped", m.Kind, m.Tx.FullHash()))
		}
	})
}

// ---------------------------------------------------------------------------------------------------------
// property 4: results are a function of the transaction (and height) only - never of what was called before
//
// Hash, FullHash and CheckSign run on pooled objects (transaction pool, encode-buffer pool). The property speaks of
// "a transaction's hash" and of a signature that "verifies": both are values of the transaction, so any sequence of
// calls over any set of transactions must give each call the value it has in isolation. Sequences of
// {Hash, FullHash, Clone+Hash, Clone+FullHash, CheckSign, Sign, group CheckSign, wire CheckSign} are generated over a
// small set of transactions that always contains an unsigned one (nil Signature), a validly signed one and a badly
// signed one, plus transactions with empty signature bytes / nil public key and small groups (fully signed, or with
// an unsigned member). Oracle per step, independent of every pool: Hash = sha256(encoding without Signature and
// Header) and FullHash = sha256(encoding), both through the plain protobuf marshaller on a reflection copy (the
// documented definitions; TestPropHashClone/C17 establish that they agree with the code in isolation), CheckSign =
// the verdict known by construction (honestly signed -> true at any height >= 0; unsigned, empty, altered -> false).
// Everything runs on one goroutine: sync.Pool hands a goroutine back what it has just put.

type seqItem struct {
	Class  string // unsigned | good | bad | emptysig | group_good | group_unsigned_member
	tx     *types.Transaction
	group  *types.Transactions
	signID int32
	priv   crypto.PrivKey
}

func (it *seqItem) wantSign() bool { return it.Class == "good" || it.Class == "group_good" }

func pbMarshal(m proto.Message) []byte {
	b, err := proto.Marshal(m)
	if err != nil {
		lib.Inconclusive("proto.Marshal: %v", err)
	}
	return b
}

func refHash(tx *types.Transaction) []byte {
	c := shallowCopy(tx)
	c.Signature, c.Header = nil, nil
	h := sha256.Sum256(pbMarshal(c))
	return h[:]
}

func refFullHash(tx *types.Transaction) []byte {
	h := sha256.Sum256(pbMarshal(shallowCopy(tx)))
	return h[:]
}

func genSeqItem(t *rapid.T, class string, i int) *seqItem {
	label := fmt.Sprintf("item%d/", i)
	tx := genTx(t, false)
	ty := rapid.SampledFrom(sigTypes).Draw(t, label+"type")
	if ty.Name == secp256k1eth.Name && noteCarrying(tx) {
		ty = sigTypes[0] // keep "good" unconditional: note-carrying payloads are finding kEthNote's subject
	}
	it := &seqItem{Class: class, tx: tx, signID: types.EncodeSignID(ty.ID, rapid.Int32Range(0, 2).Draw(t, label+"addrID")),
		priv: privKey(t, ty.Name, rapid.Uint64().Draw(t, label+"keySeed"))}
	switch class {
	case "good":
		tx.Sign(it.signID, it.priv)
	case "bad": // signed, then a signed field altered
		tx.Sign(it.signID, it.priv)
		tx.Nonce++
	case "emptysig":
		pub := it.priv.PubKey().Bytes()
		if rapid.Bool().Draw(t, label+"nilPub") {
			pub = nil
		}
		tx.Signature = &types.Signature{Ty: it.signID, Pubkey: pub, Signature: rapid.SampledFrom([][]byte{nil, {}}).Draw(t, label+"emptySig")}
	case "group_good", "group_unsigned_member":
		n := rapid.IntRange(2, 3).Draw(t, label+"members")
		txs := make([]*types.Transaction, n)
		for k := range txs {
			txs[k] = &types.Transaction{Execer: []byte("coins"), Payload: rapid.SliceOfN(rapid.Byte(), 0, 40).Draw(t, label+"payload"),
				Nonce: rapid.Int64().Draw(t, label+"nonce")<<3 | int64(k), To: "1Q4NhureJxKNBf71d26B9J3fBQoQcfmez2", ChainID: cfg.GetChainID()}
		}
		g, err := types.CreateTxGroup(txs, cfg.GetMinTxFeeRate())
		if err != nil {
			t.Fatalf("harness: CreateTxGroup: %v", err)
		}
		skip := -1
		if class == "group_unsigned_member" {
			skip = rapid.IntRange(0, n-1).Draw(t, label+"unsignedMember")
		}
		for k := range g.Txs {
			if k != skip {
				g.Txs[k].Sign(it.signID, it.priv)
			}
		}
		it.group, it.tx = g, g.Txs[n-1]
	}
	return it
}

type seqOp struct {
	Op   string `json:"op"`
	Item int    `json:"item"`
}

var seqOps = []string{"hash", "fullhash", "clone_hash", "clone_fullhash", "checksign", "checksign", "sign", "group_checksign", "wire_checksign"}

func TestPropCallOrderIndependence(t *testing.T) {
	defer lib.Flush()
	rapid.Check(t, func(t *rapid.T) {
		classes := []string{"unsigned", "good", "bad"}
		for extra := rapid.IntRange(0, 3).Draw(t, "extraItems"); extra > 0; extra-- {
			classes = append(classes, rapid.SampledFrom([]string{"unsigned", "good", "bad", "emptysig", "emptysig", "group_good", "group_good", "group_unsigned_member", "group_unsigned_member"}).Draw(t, "class"))
		}
		items := make([]*seqItem, len(classes))
		for i, c := range classes {
			items[i] = genSeqItem(t, c, i)
		}
		h := rapid.SampledFrom(heights).Draw(t, "height")
		n := rapid.IntRange(6, 30).Draw(t, "nops")
		ops := make([]seqOp, 0, n+6)
		for i := 0; i < n; i++ {
			ops = append(ops, seqOp{rapid.SampledFrom(seqOps).Draw(t, "op"), rapid.IntRange(0, len(items)-1).Draw(t, "item")})
		}
		// the named interleavings, always present: CheckSign(unsigned) -> Hash(other); CheckSign(bad) -> CheckSign(good); FullHash -> Hash
		ops = append(ops, seqOp{"checksign", 0}, seqOp{"hash", 1}, seqOp{"checksign", 2}, seqOp{"checksign", 1}, seqOp{"fullhash", 2}, seqOp{"hash", 2})

		initial := make([]map[string]string, len(items))
		for i, it := range items {
			initial[i] = map[string]string{"class": it.Class, "tx": txHex(it.tx)}
			if it.group != nil {
				initial[i]["group"] = hex.EncodeToString(pbMarshal(it.group))
			}
		}
		lib.Eval()
		kinds := map[string]bool{}
		pattern := false // a CheckSign of a signature-less item directly followed by a hash / verification of another item
		prevNoSig := -1  // item index of the previous step if it was such a CheckSign
		for step, o := range ops {
			it := items[o.Item]
			fail := func(format string, a ...interface{}) {
				lib.Violation(t, prop, "TestPropCallOrderIndependence", map[string]interface{}{"height": h, "items": initial, "ops": ops[:step+1]},
					"step %d (%s on item %d, %s): %s", step, o.Op, o.Item, it.Class, fmt.Sprintf(format, a...))
			}
			op := o.Op
			if it.group == nil && (op == "group_checksign" || op == "wire_checksign") {
				op = "checksign"
				for _, g := range items { // redirect group operations to the first group of the case, if there is one
					if g.group != nil {
						it, op = g, o.Op
						break
					}
				}
			}
			if op == "sign" && (it.group != nil || o.Item < 3) { // items 0..2 keep their class: unsigned, good, bad
				op = "checksign"
			}
			before := pbMarshal(it.tx)
			// the code under test runs inside the closure; its outcome comes back as a message so that the
			// harness's own failure path is never caught by the recover
			msg := func() (msg string) {
				defer func() {
					if r := recover(); r != nil {
						msg = fmt.Sprintf("panicked: %v", r)
					}
				}()
				switch op {
				case "hash":
					if got, want := it.tx.Hash(), refHash(it.tx); !bytes.Equal(got, want) {
						return fmt.Sprintf("Hash() = %x, the transaction's hash is %x", got, want)
					}
				case "fullhash":
					if got, want := it.tx.FullHash(), refFullHash(it.tx); !bytes.Equal(got, want) {
						return fmt.Sprintf("FullHash() = %x, the transaction's full hash is %x", got, want)
					}
				case "clone_hash":
					if got, want := it.tx.Clone().Hash(), refHash(it.tx); !bytes.Equal(got, want) {
						return fmt.Sprintf("Clone().Hash() = %x, the transaction's hash is %x", got, want)
					}
				case "clone_fullhash":
					if got, want := it.tx.Clone().FullHash(), refFullHash(it.tx); !bytes.Equal(got, want) {
						return fmt.Sprintf("Clone().FullHash() = %x, the transaction's full hash is %x", got, want)
					}
				case "checksign":
					want := it.wantSign()
					if it.group != nil { // it.tx is the group's last member: signed unless it is the unsigned one
						want = it.tx.Signature != nil
					}
					if got := it.tx.CheckSign(h); got != want {
						return fmt.Sprintf("CheckSign(%d) = %v, in isolation it is %v", h, got, want)
					}
				case "sign":
					it.tx.Sign(it.signID, it.priv)
					it.Class = "good"
				case "group_checksign":
					if got := it.group.CheckSign(h); got != it.wantSign() {
						return fmt.Sprintf("Transactions.CheckSign(%d) = %v, in isolation it is %v", h, got, it.wantSign())
					}
				case "wire_checksign":
					var back types.Transaction
					if err := types.Decode(types.Encode(it.group.Tx()), &back); err != nil {
						lib.Inconclusive("group.Tx() does not round-trip: %v", err)
					}
					if got := types.NewTransactionCache(&back).CheckSign(h); got != it.wantSign() {
						return fmt.Sprintf("TransactionCache.CheckSign(%d) of the shipped group = %v, in isolation it is %v", h, got, it.wantSign())
					}
				}
				return ""
			}()
			if msg != "" {
				fail("%s", msg)
			}
			if op != "sign" && !bytes.Equal(before, pbMarshal(it.tx)) {
				fail("the call modified the transaction")
			}
			kinds[op] = true
			lib.Class("seq:op:" + op)
			cur := o.Item
			for i := range items {
				if items[i] == it {
					cur = i
				}
			}
			if prevNoSig >= 0 && prevNoSig != cur && op != "sign" {
				pattern = true
				lib.Class("seq:after_nosig_check:" + op)
			}
			prevNoSig = -1
			noSig := it.tx.Signature == nil || it.group != nil && it.Class == "group_unsigned_member" && op != "checksign"
			if strings.HasSuffix(op, "checksign") && noSig {
				prevNoSig = cur
			}
		}
		for _, it := range items {
			lib.Class("seq:item:" + it.Class)
		}
		// non-trivial: the history-sensitive pattern occurred and at least four different operations were mixed
		if pattern && len(kinds) >= 4 {
			lib.NonTrivial(lib.Fingerprint(fmt.Sprint(initial), fmt.Sprint(ops), h))
			if lib.SampleCount() < 4 {
				lib.Sample(map[string]interface{}{"test": "call-order", "height": h, "items": initial, "ops": ops})
			}
		}
	})
}

// ---------------------------------------------------------------------------------------------------------
// pinned known findings (plain tests, no rapid)

func pinnedSigned(t *testing.T, ty sigType, keySeed uint64) *types.Transaction {
	tx := &types.Transaction{Execer: []byte("coins"), Payload: []byte("p"), Fee: 100000, Nonce: 7, To: "1Q4NhureJxKNBf71d26B9J3fBQoQcfmez2", ChainID: 33}
	tx.Sign(types.EncodeSignID(ty.ID, 0), privKey(t, ty.Name, keySeed))
	if ok, pv := safeCheck(tx, 0); !ok || pv != nil {
		t.Fatalf("fixture: honest %s signature does not verify (panic=%v)", ty.Name, pv)
	}
	return tx
}

func TestKnown_SigTrailingBytes(t *testing.T) {
	defer lib.Flush()
	for _, ty := range sigTypes {
		tx := pinnedSigned(t, ty, 1)
		tx.Signature.Signature = append(tx.Signature.Signature, 0xAA)
		ok, pv := safeCheck(tx, 0)
		if ty.Name == secp256k1eth.Name {
			continue
		}
		if ok || pv != nil {
			lib.KnownOrViolation(t, prop, "TestKnown_SigTrailingBytes", kSigTrailing, map[string]interface{}{"type": ty.Name, "tx": txHex(tx)},
				fmt.Sprintf("a %s signature with one byte appended still verifies (first failing type; trailing signature bytes are ignored)", ty.Name))
			return
		}
	}
}

func TestKnown_Sm2PubkeyPanic(t *testing.T) {
	defer lib.Flush()
	ty := sigTypes[2]
	tx := pinnedSigned(t, ty, 1)
	pub := tx.Signature.Pubkey
	for bit := 8; bit < 33*8; bit++ { // first single-bit change of X that leaves the curve
		if mp := flipBit(pub, bit); !sm2XOnCurve(mp[1:]) {
			tx.Signature.Pubkey = mp
			break
		}
	}
	if ok, pv := safeCheck(tx, 0); pv != nil || ok {
		lib.KnownOrViolation(t, prop, "TestKnown_Sm2PubkeyPanic", kSm2PubPanic, map[string]interface{}{"tx": txHex(tx), "panic": fmt.Sprint(pv)},
			"CheckSign panics (nil *big.Int in gmsm sm2.Decompress) for an sm2 public key whose X is not on the curve")
	}
}

func TestKnown_Sm2PubkeyPrefix(t *testing.T) {
	defer lib.Flush()
	// Whether a garbage format byte is accepted depends on which square root the library computes first for the
	// key's X (about half of all keys); eight fixed keys make the pinned case deterministic.
	for seed := uint64(1); seed <= 8; seed++ {
		tx := pinnedSigned(t, sigTypes[2], seed)
		orig := tx.Signature.Pubkey[0]
		tx.Signature.Pubkey[0] = 0x07
		if ok, pv := safeCheck(tx, 0); ok || pv != nil {
			lib.KnownOrViolation(t, prop, "TestKnown_Sm2PubkeyPrefix", kSm2PubPrefix, map[string]interface{}{"tx": txHex(tx), "originalPrefix": orig, "keySeed": seed},
				fmt.Sprintf("sm2 public key with format byte 0x07 instead of %#x still verifies", orig))
			return
		}
	}
}

func TestKnown_PubkeyExtendedTo65(t *testing.T) {
	defer lib.Flush()
	for _, ty := range []sigType{sigTypes[2], sigTypes[3]} {
		tx := pinnedSigned(t, ty, 1)
		tx.Signature.Pubkey = append(tx.Signature.Pubkey, bytes.Repeat([]byte{0x5A}, 32)...)
		if ok, pv := safeCheck(tx, 0); ok || pv != nil {
			lib.KnownOrViolation(t, prop, "TestKnown_PubkeyExtendedTo65", kPubExtend65, map[string]interface{}{"type": ty.Name, "tx": txHex(tx)},
				fmt.Sprintf("a compressed %s public key followed by 32 arbitrary bytes still verifies (and maps to a different sender address)", ty.Name))
			return
		}
	}
}

func TestKnown_EthNoteHonest(t *testing.T) {
	defer lib.Flush()
	ty := sigTypes[4]
	payload := types.Encode(&cty.CoinsAction{Ty: cty.CoinsActionTransfer, Value: &cty.CoinsAction_Transfer{Transfer: &types.AssetsTransfer{Amount: 1, Note: []byte("memo"), To: "1Q4NhureJxKNBf71d26B9J3fBQoQcfmez2"}}})
	tx := &types.Transaction{Execer: []byte("coins"), Payload: payload, Fee: 100000, Nonce: 7, To: "1Q4NhureJxKNBf71d26B9J3fBQoQcfmez2"}
	tx.Sign(types.EncodeSignID(ty.ID, 2), privKey(t, ty.Name, 1))
	if ok, pv := safeCheck(tx, 0); !ok || pv != nil {
		lib.KnownOrViolation(t, prop, "TestKnown_EthNoteHonest", kEthNote, map[string]interface{}{"tx": txHex(tx)},
			"an honest secp256k1eth signature over a coins transfer with a non-empty note does not verify (the note is parsed as a raw Ethereum transaction)")
	}
}

// ---------------------------------------------------------------------------------------------------------
// property 3: enable-height gating, one fresh child process per generated crypto configuration

type heightQuery struct {
	Type   string `json:"type"`
	Height int64  `json:"height"`
	Tamper bool   `json:"tamper"`
}

type heightCase struct {
	EnableTypes  []string         `json:"enableTypes"`
	EnableHeight map[string]int64 `json:"enableHeight"`
	KeySeed      string           `json:"keySeed"`
	Queries      []heightQuery    `json:"queries"`
}

var allTypeNames = []string{secp256k1.Name, ed25519.Name, sm2.Name, secp256r1.Name, secp256k1eth.Name, none.Name}

// enabledAt is the reference model, written from the documentation of crypto.Config / crypto.Load:
// every driver is enabled from height 0 unless registered default-disabled ("none"); a non-empty enableTypes list
// enables exactly the listed drivers; enableHeight overrides the height of drivers that are enabled and is ignored
// for the others; a negative enable height means never; the check applies to block heights >= 0.
func enabledAt(c *heightCase, name string, h int64) bool {
	on := name != none.Name
	if len(c.EnableTypes) > 0 {
		on = false
		for _, n := range c.EnableTypes {
			on = on || n == name
		}
	}
	eh := int64(0)
	if v, ok := c.EnableHeight[name]; ok && on {
		eh = v
	}
	return on && eh >= 0 && h >= eh
}

func runChild(c *heightCase) (results []bool, panics []string) {
	bin := os.Getenv("VERIF_BIN")
	if bin == "" {
		lib.Inconclusive("VERIF_BIN not set: TestGenEnableHeights needs the c16_child helper built by the driver")
	}
	in, _ := json.Marshal(c)
	ctx, cancel := context.WithTimeout(context.Background(), 120*time.Second)
	defer cancel()
	cmd := exec.CommandContext(ctx, bin+"/c16_child")
	cmd.Stdin = bytes.NewReader(in)
	out, err := cmd.Output()
	i := bytes.LastIndex(out, []byte("C16CHILD "))
	if i < 0 {
		lib.Inconclusive("c16_child gave no reply (err=%v, output=%q)", err, string(out))
	}
	var rep struct {
		Results []bool   `json:"results"`
		Panics  []string `json:"panics"`
		Err     string   `json:"err"`
	}
	line := out[i+len("C16CHILD "):]
	if j := bytes.IndexByte(line, '\n'); j >= 0 {
		line = line[:j]
	}
	if jerr := json.Unmarshal(line, &rep); jerr != nil || rep.Err != "" || err != nil || len(rep.Results) != len(c.Queries) {
		lib.Inconclusive("c16_child failed: run=%v json=%v child=%q results=%d/%d", err, jerr, rep.Err, len(rep.Results), len(c.Queries))
	}
	return rep.Results, rep.Panics
}

func TestGenEnableHeights(t *testing.T) {
	defer lib.Flush()
	seed, _ := strconv.ParseInt(os.Getenv("VERIF_SHARD_SEED"), 10, 64)
	if seed == 0 {
		seed = 1
	}
	n, _ := strconv.Atoi(os.Getenv("N"))
	if n <= 0 {
		n = 12
	}
	hs := []int64{-1, 0, 1, 2, 10, 1000, 1 << 40}
	for i := 0; i < n; i++ {
		rng := rand.New(rand.NewSource(seed + int64(i)*7919))
		c := &heightCase{EnableHeight: map[string]int64{}, KeySeed: fmt.Sprintf("%d-%d", seed, i)}
		if i == 0 {
			// the default configuration: everything but "none" enabled from height 0
		} else {
			if rng.Intn(2) == 0 {
				for _, name := range allTypeNames {
					if rng.Intn(3) > 0 {
						c.EnableTypes = append(c.EnableTypes, name)
					}
				}
			}
			for _, name := range allTypeNames {
				if rng.Intn(5) < 3 {
					c.EnableHeight[name] = hs[rng.Intn(len(hs))]
				}
			}
			if i%3 == 1 { // every third configuration switches the default-disabled "none" driver on at a non-negative height
				if !strings.Contains(strings.Join(c.EnableTypes, ","), none.Name) {
					c.EnableTypes = append(c.EnableTypes, none.Name)
				}
				c.EnableHeight[none.Name] = hs[1+rng.Intn(5)]
			}
		}
		for _, name := range allTypeNames {
			qh := map[int64]bool{0: true, 1: true, 1 << 41: true, math.MaxInt64: true, rng.Int63n(2000): true}
			if eh, ok := c.EnableHeight[name]; ok && eh > 0 {
				qh[eh-1], qh[eh], qh[eh+1] = true, true, true
			}
			var sorted []int64
			for h := range qh {
				sorted = append(sorted, h)
			}
			sort.Slice(sorted, func(a, b int) bool { return sorted[a] < sorted[b] })
			for _, h := range sorted {
				c.Queries = append(c.Queries, heightQuery{Type: name, Height: h})
			}
			if name != none.Name { // "none" carries no signature to tamper with
				c.Queries = append(c.Queries, heightQuery{Type: name, Height: 1 << 41, Tamper: true})
			}
		}
		results, panics := runChild(c)
		straddled := map[string][2]bool{}
		for qi, q := range c.Queries {
			lib.Eval()
			want := enabledAt(c, q.Type, q.Height) && !q.Tamper
			lib.Class(fmt.Sprintf("height:%s:want=%v", q.Type, want))
			if panics[qi] != "" || results[qi] != want {
				lib.Violation(t, prop, "TestGenEnableHeights", map[string]interface{}{"config": c, "query": q},
					"crypto config %v / %v: CheckSign(%s signature, height %d, tampered=%v) = %v (panic %q), the configuration says %v",
					c.EnableTypes, c.EnableHeight, q.Type, q.Height, q.Tamper, results[qi], panics[qi], want)
			}
			if !q.Tamper {
				s := straddled[q.Type]
				if want {
					s[1] = true
				} else {
					s[0] = true
				}
				straddled[q.Type] = s
			}
		}
		// non-trivial: a (configuration, type) pair for which both verdicts were observed, i.e. the enable height was straddled
		for _, name := range allTypeNames {
			if s := straddled[name]; s[0] && s[1] {
				cj, _ := json.Marshal(map[string]interface{}{"t": c.EnableTypes, "h": c.EnableHeight})
				lib.NonTrivial(lib.Fingerprint("height", cj, name))
				lib.Class("height:straddled:" + name)
				if lib.SampleCount() < 4 {
					lib.Sample(map[string]interface{}{"test": "enable-height", "enableTypes": c.EnableTypes, "enableHeight": c.EnableHeight, "type": name})
				}
			}
		}
	}
}

func TestKnown_EthWrappedEnvelope(t *testing.T) {
	defer lib.Flush()
	key, _ := ethcrypto.ToECDSA(bytes.Repeat([]byte{0x42}, 32))
	to := ecommon.HexToAddress("0x00000000000000000000000000000000000000aa")
	stx, err := etypes.SignTx(etypes.NewTx(&etypes.LegacyTx{Nonce: 5, GasPrice: big.NewInt(1e10), Gas: 21000, To: &to, Value: big.NewInt(1e18)}),
		etypes.NewLondonSigner(big.NewInt(evmChainID)), key)
	if err != nil {
		t.Fatalf("fixture: %v", err)
	}
	tx, why := wrapEth(stx)
	if tx == nil {
		t.Fatalf("fixture: %s", why)
	}
	if ok, pv := safeCheck(tx, 1); !ok || pv != nil {
		t.Fatalf("fixture: honest wrapped transaction does not verify (panic=%v)", pv)
	}
	before := tx.Fee
	tx.Fee = cfg.GetMaxTxFee(1) // anyone relaying the transaction raises the fee to the maximum the chain allows
	if ok, pv := safeCheck(tx, 1); ok || pv != nil {
		lib.KnownOrViolation(t, prop, "TestKnown_EthWrappedEnvelope", kEthWrapped, map[string]interface{}{"tx": txHex(tx), "feeBefore": before, "feeAfter": tx.Fee},
			"a wrapped Ethereum transaction (secp256k1eth) still verifies after its Fee was raised from the signed gas to the chain's maximum fee: the envelope fields Fee/Expire/To/ChainID/GroupCount/Header/Next are not covered by the signature")
	}
}
