// C04: pending state updates (MemSet) never leak into committed state of the mavl Store.
//
// Oracle, derived from the property text: a reference model keeps, per committed root, the content (Go map) that
// the history says was committed there, and the set of pending roots (keyed by root hash, exactly as the store's
// API addresses them).
//   - after every step every committed root reads exactly its model content (point reads over every key the
//     history ever used, and a full range iteration), whatever was computed, rolled back or abandoned meanwhile,
//     and again after a restart;
//   - Commit / Rollback of a pending root reply with that root; of anything else with types.ErrHashNotFound;
//   - a root that was only ever pending (rolled back, or dropped by a restart) must not be readable from the
//     database: in configurations where only the database can serve it (no memTree node cache) a non-empty read is
//     a leak, unless some committed root's content contains the whole content of that root (content addressing
//     makes an identical tree or subtree legitimately present). With memTree such roots are not read at all: the
//     cache legitimately holds nodes of other pending updates, and the property speaks about committed roots only.
//
// Aliasing dimension: the store runs in the caller's process and requests carry pointers, so "exactly its content"
// must hold whatever the caller does with its own memory afterwards. For a drawn share of the updates the harness,
// once the call has returned, overwrites the key/value bytes it passed in, re-points and truncates the StoreSet
// structure, or carves keys and values out of one scratch buffer that the next such update overwrites (an encoder
// with a pooled buffer); for a drawn share of the cases it also overwrites the key buffers of every Get and the
// value slices Get returned. The model keeps its own copies; the oracle is unchanged.
package c04

import (
	"bytes"
	"encoding/hex"
	"encoding/json"
	"fmt"
	"math"
	"os"
	"regexp"
	"sort"
	"testing"

	"github.com/33cn/chain33/common/log/log15"
	"github.com/33cn/chain33/queue"
	mavlstore "github.com/33cn/chain33/system/store/mavl"
	mavl "github.com/33cn/chain33/system/store/mavl/db"
	"github.com/33cn/chain33/types"
	"pgregory.net/rapid"
	"verifharness/lib"
)

const (
	prop = "C04"
	// known-finding id: under EnableMavlPrefix + EnableMemTree, MemSet publishes the nodes of the pending tree into
	// the process-global node cache (Tree.Hash). A node key carries the height at which the node was created but
	// its hash covers only the content of its children, so a pending update that writes a pair again with the value
	// it already has re-creates nodes whose cache key equals that of committed nodes while their children (keyed
	// with the pending height) are never persisted; Rollback does not undo it. Reads and MemSets on committed roots
	// then panic with ErrNodeNotExist (see TestKnown_MemTreePoisonedByPendingRoot).
	knownPoison = "C04-memtree-pending-poison"
)

func TestMain(m *testing.M) {
	log15.Root().SetHandler(log15.DiscardHandler())
	lib.Main(m)
}

var emptyRoot = make([]byte, 32)

// ---------------------------------------------------------------------------------------------------------
// fixture

type cfgT struct {
	Prefix, Prune, MemTree, MemVal, LevelDB bool
}

func (c cfgT) sub() []byte {
	// pruneHeight so large that no pruning pass ever starts (pruning is C05's subject)
	b, _ := json.Marshal(map[string]interface{}{"enableMavlPrefix": c.Prefix, "enableMavlPrune": c.Prune, "pruneHeight": math.MaxInt32,
		"enableMemTree": c.MemTree, "enableMemVal": c.MemTree && c.MemVal})
	return b
}

func genCfg(t *rapid.T) cfgT {
	c := cfgT{Prefix: rapid.Bool().Draw(t, "prefix"), Prune: rapid.IntRange(0, 3).Draw(t, "prune") == 0,
		MemTree: rapid.IntRange(0, 4).Draw(t, "memTree") == 0, MemVal: rapid.Bool().Draw(t, "memVal"), LevelDB: rapid.IntRange(0, 3).Draw(t, "leveldb") > 0}
	// the in-memory test backend fails a batch that deletes a missing key ("leveldb: not found"), which the prune
	// bookkeeping of a fork does routinely and LevelDB accepts; backend differences are C06's subject, so pruning
	// configurations run on LevelDB, as deployed nodes do
	c.LevelDB = c.LevelDB || c.Prune
	return c
}

type fixture struct {
	c   cfgT
	dir string
	st  *mavlstore.Store
	q   queue.Queue
}

// heightBase: mavl keeps the largest committed height in a process-global (maxBlockHeight) that cannot be reset
// from outside the package; every case therefore uses heights above everything an earlier case used, which is
// what a fresh process would see. Heights in renderings are relative to the case's base.
var heightBase int64

// open starts a store the way a fresh process would: the process-global node caches are dropped first.
func open(c cfgT, dir string, withQueue bool) *fixture {
	mavl.ReleaseGlobalMem()
	driver := "memdb"
	if c.LevelDB {
		driver = "leveldb"
	}
	f := &fixture{c: c, dir: dir}
	f.st = mavlstore.New(&types.Store{Name: "mavl", Driver: driver, DbPath: dir, DbCache: 4}, c.sub(), nil).(*mavlstore.Store)
	if withQueue {
		f.q = queue.New("channel")
		f.st.SetQueueClient(f.q.Client())
	}
	return f
}

func (f *fixture) close() {
	f.st.Close()
	if f.q != nil {
		f.q.Close()
	}
}

func scratchDir() string {
	dir, err := os.MkdirTemp(os.Getenv("VERIF_WORK"), "c04-")
	if err != nil {
		lib.Inconclusive("C04 cannot create scratch dir: %v", err)
	}
	return dir
}

// ---------------------------------------------------------------------------------------------------------
// reference model

type verT struct {
	content map[string]string
	height  int64
}

type deadT struct {
	content map[string]string
}

type model struct {
	committed map[string]*verT
	corder    []string // committed roots, first commit first
	pending   map[string]*verT
	porder    []string // pending roots, oldest first
	dead      map[string]*deadT
	universe  map[string]bool
}

func newModel() *model {
	m := &model{committed: map[string]*verT{}, pending: map[string]*verT{}, dead: map[string]*deadT{}, universe: map[string]bool{}}
	m.commit(string(emptyRoot), &verT{content: map[string]string{}})
	return m
}

func (m *model) commit(root string, v *verT) {
	if _, ok := m.committed[root]; !ok {
		m.corder = append(m.corder, root)
		m.committed[root] = v
	}
	delete(m.dead, root)
}

func (m *model) addPending(root string, v *verT) {
	if _, ok := m.pending[root]; !ok {
		m.porder = append(m.porder, root)
	}
	m.pending[root] = v
	delete(m.dead, root)
}

func (m *model) dropPending(root string) *verT {
	v := m.pending[root]
	delete(m.pending, root)
	for i, r := range m.porder {
		if r == root {
			m.porder = append(m.porder[:i], m.porder[i+1:]...)
			break
		}
	}
	return v
}

func (m *model) keys() [][]byte {
	var ks []string
	for k := range m.universe {
		ks = append(ks, k)
	}
	sort.Strings(ks)
	out := make([][]byte, len(ks))
	for i, k := range ks {
		out[i] = []byte(k)
	}
	return out
}

// coveredByCommitted: some committed root's content contains every pair of c.
func (m *model) coveredByCommitted(c map[string]string) bool {
	for _, v := range m.committed {
		all := true
		for k, val := range c {
			if got, ok := v.content[k]; !ok || got != val {
				all = false
				break
			}
		}
		if all {
			return true
		}
	}
	return false
}

func apply(parent map[string]string, kv [][2]string) map[string]string {
	out := make(map[string]string, len(parent)+len(kv))
	for k, v := range parent {
		out[k] = v
	}
	for _, p := range kv {
		out[p[0]] = p[1]
	}
	return out
}

func storeSet(parent []byte, kv [][2]string, height int64) *types.StoreSet {
	return buildSet(parent, kv, height, nil)
}

// what the caller does with the memory of an update after MemSet/Set has returned (bit set, opT.Alias)
const (
	aliasValues = 1 << iota // overwrite the value bytes
	aliasKeys               // overwrite the key bytes
	aliasStruct             // re-point the KeyValue fields, drop entries, truncate the KV slice, reset the StoreSet fields
	aliasPool               // keys and values live in one scratch buffer that the next pooled update overwrites
)

// Not part of the dimension, because the unchanged store keeps these buffers (observations reported to the
// coordinator, not asserted): the bytes of the StateHash passed to MemSet/Set/Get become the hash field of the
// loaded root node (nodeDB.GetNode: node.hash = hash) and from there a child reference of the new tree; the root
// hash MemSet replies is the pending root node's own hash slice.

// buildSet encodes an update into freshly allocated buffers, or, with a pool, into the front of that one buffer.
func buildSet(parent []byte, kv [][2]string, height int64, pool []byte) *types.StoreSet {
	set := &types.StoreSet{StateHash: append([]byte{}, parent...), Height: height}
	off := 0
	carve := func(s string) []byte {
		if pool == nil || off+len(s) > len(pool) {
			return []byte(s)
		}
		b := pool[off : off+len(s) : off+len(s)]
		copy(b, s)
		off += len(s)
		return b
	}
	for _, p := range kv {
		set.KV = append(set.KV, &types.KeyValue{Key: carve(p[0]), Value: carve(p[1])})
	}
	return set
}

// scribble is the caller reusing its memory after the call returned.
func scribble(set *types.StoreSet, alias int) {
	for _, kv := range set.KV {
		if alias&aliasValues != 0 {
			for i := range kv.Value {
				kv.Value[i] ^= 0x5a
			}
		}
		if alias&aliasKeys != 0 {
			for i := range kv.Key {
				kv.Key[i] ^= 0x5a
			}
		}
	}
	if alias&aliasStruct != 0 {
		for i, kv := range set.KV {
			kv.Key, kv.Value = []byte("reused"), nil
			if i%2 == 0 {
				set.KV[i] = nil
			}
		}
		set.KV, set.StateHash, set.Height = set.KV[:0], nil, -7
	}
}

func genAlias(t *rapid.T) int {
	return rapid.SampledFrom([]int{0, 0, 0, aliasValues, aliasValues | aliasKeys, aliasPool, aliasPool, aliasStruct,
		aliasValues | aliasKeys | aliasStruct, aliasPool | aliasStruct}).Draw(t, "alias")
}

// checkReads compares every committed root with the model through get/iterate (direct calls or queue messages),
// and probes the roots that were only ever pending. It returns "" or a violation message.
func checkReads(m *model, c cfgT, get func(root []byte, keys [][]byte) [][]byte, iterate func(root []byte) [][2]string) string {
	keys := m.keys()
	for _, r := range m.corder {
		want := m.committed[r].content
		for i, got := range get([]byte(r), keys) {
			w, ok := want[string(keys[i])]
			if (ok && !bytes.Equal(got, []byte(w))) || (!ok && got != nil) {
				return fmt.Sprintf("committed root %x: key %q reads %q, the content committed there has %q (present=%v)", r, keys[i], got, w, ok)
			}
		}
		if iterate != nil {
			var exp [][2]string
			for k, v := range want {
				exp = append(exp, [2]string{k, v})
			}
			sort.Slice(exp, func(i, j int) bool { return exp[i][0] < exp[j][0] })
			if got := iterate([]byte(r)); fmt.Sprint(got) != fmt.Sprint(exp) {
				return fmt.Sprintf("committed root %x: full iteration yields %q, the content committed there is %q", r, got, exp)
			}
		}
	}
	var dead []string
	for r := range m.dead {
		dead = append(dead, r)
	}
	sort.Strings(dead)
	for _, r := range dead {
		d := m.dead[r]
		if c.MemTree {
			continue // the node cache may hold this tree as (part of) another pending update; that is not committed state
		}
		lib.Class("dead_root_probe")
		for i, got := range get([]byte(r), keys) {
			if got != nil && !m.coveredByCommitted(d.content) {
				return fmt.Sprintf("root %x was computed by MemSet and never committed, yet after its rollback / a restart it still reads %q=%q", r, keys[i], got)
			}
		}
	}
	return ""
}

// ---------------------------------------------------------------------------------------------------------
// sequential histories

type opT struct {
	Op     string      `json:"op"` // memset | set | commit | rollback | restart
	Parent int         `json:"parent,omitempty"`
	KV     [][2]string `json:"kv,omitempty"`
	Target int         `json:"target,omitempty"` // commit/rollback: >=0 index into pending roots (newest first); <0 see genOps
	// memset only: instead of KV, write the first Rewrite pairs of the parent's own content again, unchanged
	// (a block whose writes leave the state as it was: the computed root is the parent's root, one height up)
	Rewrite int `json:"rewrite,omitempty"`
	Alias   int `json:"alias,omitempty"` // memset/set: what happens to the request's memory after the call (alias* bits)
}

var keySpace = []string{"a", "ab", "abc", "b", "ba", "c", "d", "e", "f", "g", "mavl-x", "mavl-y", "z", "\x00", "~"}

func genKV(t *rapid.T, min int) [][2]string {
	n := rapid.IntRange(min, 6).Draw(t, "nkv")
	if rapid.IntRange(0, 7).Draw(t, "bigBatch") == 0 {
		n = rapid.IntRange(10, 40).Draw(t, "nkvBig")
	}
	seen := map[string]int{} // the block executor hands over batches without duplicate keys (util.DelDupKey)
	var kv [][2]string
	for i := 0; i < n; i++ {
		k := rapid.SampledFrom(keySpace).Draw(t, "key")
		if n > 6 {
			k = fmt.Sprintf("k%02d", rapid.IntRange(0, 60).Draw(t, "keyNo"))
		}
		v := fmt.Sprintf("v%d", rapid.IntRange(0, 30).Draw(t, "val"))
		if at, ok := seen[k]; ok {
			kv[at][1] = v
			continue
		}
		seen[k] = len(kv)
		kv = append(kv, [2]string{k, v})
	}
	return kv
}

func genOps(t *rapid.T, restart bool) []opT {
	kinds := []string{"memset", "memset", "memset", "memset", "commit", "commit", "rollback", "rollback", "set", "repeat", "rewrite"}
	if restart {
		kinds = append(kinds, "restart")
	}
	n := rapid.IntRange(3, 30).Draw(t, "nops")
	var ops []opT
	for len(ops) < n {
		switch kind := rapid.SampledFrom(kinds).Draw(t, "kind"); kind {
		case "memset", "set":
			o := opT{Op: kind, Parent: rapid.IntRange(0, 12).Draw(t, "parent"), Alias: genAlias(t)}
			if kind == "set" || rapid.IntRange(0, 9).Draw(t, "emptyBatch") > 0 {
				o.KV = genKV(t, 1)
			}
			ops = append(ops, o)
			// competing updates on the same parent at the same height are the heart of the property: often follow up
			for rapid.IntRange(0, 2).Draw(t, "fork") == 0 && len(ops) < n {
				f := opT{Op: "memset", Parent: o.Parent, KV: genKV(t, 1), Alias: genAlias(t)}
				if rapid.IntRange(0, 5).Draw(t, "identical") == 0 {
					f.KV = o.KV
				}
				ops = append(ops, f)
				// ... and often settle the competition right away: one branch wins, the other is discarded
				if rapid.IntRange(0, 2).Draw(t, "settle") > 0 {
					ops = append(ops, opT{Op: "commit", Target: rapid.IntRange(0, 1).Draw(t, "winner")}, opT{Op: "rollback"})
				}
			}
		case "rewrite":
			ops = append(ops, opT{Op: "memset", Parent: rapid.IntRange(0, 12).Draw(t, "parent"), Rewrite: rapid.IntRange(1, 3).Draw(t, "rewrite"), Alias: genAlias(t)})
		case "repeat": // the same update computed again later (same parent, same batch)
			var prev []opT
			for _, o := range ops {
				if o.Op == "memset" {
					prev = append(prev, o)
				}
			}
			if len(prev) > 0 {
				ops = append(ops, rapid.SampledFrom(prev).Draw(t, "again"))
			}
		case "commit", "rollback":
			// -1 unknown hash, -2 a committed root, -3 a root that was rolled back or dropped, otherwise a pending root
			ops = append(ops, opT{Op: kind, Target: rapid.SampledFrom([]int{0, 0, 0, 1, 1, 2, 3, 5, -1, -2, -3}).Draw(t, "target")})
		case "restart":
			ops = append(ops, opT{Op: "restart"})
		}
	}
	return ops
}

var missingNode = regexp.MustCompile(`(?:left|right) hash 0x([0-9a-f]+) ErrNodeNotExist`)

// poisonSignature recognises the manifestation of the listed finding that the model cannot predict (a pending
// update that converges, from another parent or at another height, to content that is already committed): the
// store panicked because a height-prefixed node key is missing from the database while a record with the same
// 32-byte content hash exists under another height prefix.
func poisonSignature(f *fixture, panicMsg string) bool {
	m := missingNode.FindStringSubmatch(panicMsg)
	if m == nil {
		return false
	}
	key, _ := hex.DecodeString(m[1])
	if len(key) <= 32 || !(bytes.HasPrefix(key, []byte("_mb_-")) || bytes.HasPrefix(key, []byte("_mh_-"))) {
		return false
	}
	db := f.st.GetDB()
	if v, err := db.Get(key); err == nil && len(v) > 0 {
		return false
	}
	it := db.Iterator([]byte("_m"), nil, false) // every height-prefixed node key starts with _mb_- or _mh_-
	defer it.Close()
	for it.Rewind(); it.Valid(); it.Next() {
		if k := it.Key(); len(k) > 32 && !bytes.Equal(k, key) && bytes.HasSuffix(k, key[len(key)-32:]) {
			return true
		}
	}
	return false
}

// aliasReturnedOK: may the harness overwrite the value slices Get returned at this root? Not where the unchanged
// store itself hands out its own memory (reported to the coordinator as an observation, not asserted): with
// memTree + memVal a leaf value comes straight out of the process-global node cache, and at a root that is also
// pending it comes out of the pending in-memory tree.
func aliasReturnedOK(c cfgT, m *model, root []byte) bool {
	_, pending := m.pending[string(root)]
	return !(c.MemTree && c.MemVal) && !pending
}

type caseT struct {
	Cfg cfgT  `json:"cfg"`
	Ops []opT `json:"ops"`
	// the caller overwrites the key buffers of every Get after it returned, and the value slices Get handed back
	AliasReads bool `json:"alias_reads,omitempty"`
}

type outcome struct {
	nt, cutShort                      bool
	restarts, forks, identical, empty int
	rewrites, skipped                 int
	scribbled, pooled                 int
}

func runSequential(t lib.TB, test string, cs caseT) (res outcome) {
	dir := scratchDir()
	defer os.RemoveAll(dir)
	heightBase += 1000
	f := open(cs.Cfg, dir, false)
	defer func() { f.close() }()
	m := newModel()
	pool := make([]byte, 4096)
	get := func(root []byte, keys [][]byte) [][]byte {
		if !cs.AliasReads {
			return f.st.Get(&types.StoreGet{StateHash: root, Keys: keys})
		}
		req := &types.StoreGet{StateHash: append([]byte{}, root...)}
		for _, k := range keys {
			req.Keys = append(req.Keys, append([]byte{}, k...))
		}
		vals := f.st.Get(req)
		out := make([][]byte, len(vals))
		for i, v := range vals {
			if v != nil {
				out[i] = append([]byte{}, v...)
			}
		}
		// the caller reuses its request memory and works destructively on what it got back; every later read
		// (at least the next step's) must still see the committed content
		for _, k := range req.Keys {
			for i := range k {
				k[i] ^= 0x5a
			}
		}
		req.Keys, req.StateHash = req.Keys[:0], nil
		if aliasReturnedOK(cs.Cfg, m, root) {
			for _, v := range vals {
				for i := range v {
					v[i] ^= 0x5a
				}
			}
		}
		return out
	}
	iterate := func(root []byte) (out [][2]string) {
		f.st.IterateRangeByStateHash(root, nil, nil, true, func(k, v []byte) bool {
			out = append(out, [2]string{string(k), string(v)})
			return false
		})
		return
	}
	// per parent: roots computed on it and what became of them (for the non-triviality rule)
	type fate struct{ committed, discarded bool }
	branches := map[string]map[string]*fate{}
	parentOf := map[string][]string{}
	at, judged := 0, false
	defer func() { // a panic inside the store (it panics on a missing node) is reported with the history that led to it
		if p := recover(); p != nil {
			if judged { // not the store: the oracle already failed the case (rapid unwinds by panicking)
				panic(p)
			}
			if (cs.Cfg.Prefix || cs.Cfg.Prune) && cs.Cfg.MemTree && lib.Known(knownPoison) && poisonSignature(f, fmt.Sprint(p)) {
				lib.ExcludedKnown(knownPoison) // the cache stays poisoned: the history ends here
				res.cutShort = true
				return
			}
			lib.Violation(t, prop, test, caseT{cs.Cfg, cs.Ops[:at+1], cs.AliasReads}, "step %d (%s): the store panicked: %v", at, cs.Ops[at].Op, p)
		}
	}()
	for step, o := range cs.Ops {
		at = step
		fail := func(format string, a ...interface{}) {
			judged = true
			lib.Violation(t, prop, test, caseT{cs.Cfg, cs.Ops[:step+1], cs.AliasReads}, "step %d (%s): %s", step, o.Op, fmt.Sprintf(format, a...))
		}
		switch o.Op {
		case "memset", "set":
			parent := m.corder[o.Parent%len(m.corder)]
			pv := m.committed[parent]
			if o.Rewrite > 0 {
				var ks []string
				for k := range pv.content {
					ks = append(ks, k)
				}
				sort.Strings(ks)
				o.KV = nil
				for i := 0; i < o.Rewrite && i < len(ks); i++ {
					o.KV = append(o.KV, [2]string{ks[i], pv.content[ks[i]]})
				}
				res.rewrites++
			}
			// The listed finding's class, decided on the model before the call: prefix + memTree and a MemSet
			// batch that writes some pair with the value the parent already has. While the finding is listed such
			// an update is left out of the history (it would poison the cache for the rest of the case); when it
			// is not listed everything is executed and judged strictly.
			if o.Op == "memset" && (cs.Cfg.Prefix || cs.Cfg.Prune) && cs.Cfg.MemTree && lib.Known(knownPoison) {
				unchanged := false
				for _, p := range o.KV {
					if old, ok := pv.content[p[0]]; ok && old == p[1] {
						unchanged = true
					}
				}
				if unchanged {
					lib.ExcludedKnown(knownPoison)
					res.skipped++
					continue
				}
			}
			for _, p := range o.KV {
				m.universe[p[0]] = true
			}
			v := &verT{content: apply(pv.content, o.KV), height: pv.height + 1} // a block's height is its parent's + 1: siblings share a height
			var scratch []byte
			if o.Alias&aliasPool != 0 {
				scratch = pool
				res.pooled++
			}
			set := buildSet([]byte(parent), o.KV, heightBase+v.height, scratch)
			var root []byte
			var err error
			if o.Op == "set" {
				root, err = f.st.Set(set, false)
			} else {
				root, err = f.st.MemSet(set, false)
			}
			root = append([]byte(nil), root...) // an empty update replies the caller's own parent buffer
			scribble(set, o.Alias)
			if o.Alias&^aliasPool != 0 {
				res.scribbled++
			}
			if err != nil || len(root) == 0 {
				fail("on committed parent %x replied root=%x err=%v", parent, root, err)
			}
			if len(o.KV) == 0 {
				res.empty++
				if !bytes.Equal(root, []byte(parent)) {
					fail("empty update on %x replied a different root %x", parent, root)
				}
			}
			// the same root hash must stand for the same content everywhere
			for _, known := range []*verT{m.committed[string(root)], m.pending[string(root)]} {
				if known != nil && fmt.Sprint(known.content) != fmt.Sprint(v.content) {
					fail("root %x already stands for content %v, now also for %v", root, known.content, v.content)
				}
			}
			if o.Op == "set" {
				m.commit(string(root), v)
				break
			}
			if _, again := m.pending[string(root)]; again {
				res.identical++
			}
			m.addPending(string(root), v)
			if branches[parent] == nil {
				branches[parent] = map[string]*fate{}
			}
			if branches[parent][string(root)] == nil {
				branches[parent][string(root)] = &fate{}
			}
			parentOf[string(root)] = append(parentOf[string(root)], parent)
			if len(branches[parent]) >= 2 {
				res.forks++
			}
		case "commit", "rollback":
			var target string
			isPending := false
			switch {
			case o.Target >= 0 && len(m.porder) > 0:
				target, isPending = m.porder[len(m.porder)-1-o.Target%len(m.porder)], true
			case o.Target == -2:
				target = m.corder[len(m.corder)-1]
				_, isPending = m.pending[target]
			case o.Target == -3 && len(m.dead) > 0:
				var ds []string
				for r := range m.dead {
					ds = append(ds, r)
				}
				sort.Strings(ds)
				target = ds[0]
			default:
				target = string(bytes.Repeat([]byte{0xab}, 32))
			}
			var reply []byte
			var err error
			if o.Op == "commit" {
				reply, err = f.st.Commit(&types.ReqHash{Hash: []byte(target)})
			} else {
				reply, err = f.st.Rollback(&types.ReqHash{Hash: []byte(target)})
			}
			if isPending {
				if err != nil || !bytes.Equal(reply, []byte(target)) {
					fail("of pending root %x replied %x, %v", target, reply, err)
				}
				v := m.dropPending(target)
				for _, p := range parentOf[target] {
					if o.Op == "commit" {
						branches[p][target].committed = true
					} else {
						branches[p][target].discarded = true
					}
				}
				if o.Op == "commit" {
					m.commit(target, v)
				} else if _, ok := m.committed[target]; !ok {
					m.dead[target] = &deadT{content: v.content}
				}
			} else if err != types.ErrHashNotFound || reply != nil {
				fail("of root %x, which is not pending, replied %x, %v (want ErrHashNotFound)", target, reply, err)
			}
		case "restart":
			f.close()
			f = open(cs.Cfg, dir, false)
			res.restarts++
			for _, r := range append([]string{}, m.porder...) {
				v := m.dropPending(r)
				for _, p := range parentOf[r] {
					branches[p][r].discarded = true
				}
				if _, ok := m.committed[r]; !ok {
					m.dead[r] = &deadT{content: v.content}
				}
			}
		}
		if msg := checkReads(m, cs.Cfg, get, iterate); msg != "" {
			fail("%s", msg)
		}
	}
	// non-trivial: some parent got >= 2 distinct pending updates, exactly one of them was committed and another
	// one rolled back or dropped; every later step (at least the commit step itself) re-read all committed roots
	for _, bs := range branches {
		committed, discarded := 0, 0
		for _, ft := range bs {
			if ft.committed {
				committed++
			} else if ft.discarded {
				discarded++
			}
		}
		if len(bs) >= 2 && committed == 1 && discarded >= 1 {
			res.nt = true
		}
	}
	return res
}

func TestPropPendingNeverLeaks(t *testing.T) {
	defer lib.Flush()
	rapid.Check(t, func(t *rapid.T) {
		cs := caseT{Cfg: genCfg(t), AliasReads: rapid.IntRange(0, 2).Draw(t, "aliasReads") == 0}
		cs.Ops = genOps(t, cs.Cfg.LevelDB)
		lib.Eval()
		res := runSequential(t, "TestPropPendingNeverLeaks", cs)
		for _, cl := range []struct {
			on   bool
			name string
		}{{cs.Cfg.Prefix || cs.Cfg.Prune, "cfg_prefix"}, {cs.Cfg.Prune, "cfg_prune"}, {cs.Cfg.MemTree, "cfg_memtree"}, {cs.Cfg.LevelDB, "cfg_leveldb"},
			{res.restarts > 0, "restart"}, {res.forks > 0, "fork_same_parent"}, {res.identical > 0, "identical_pending_twice"}, {res.empty > 0, "empty_update"}, {res.rewrites > 0, "rewrite_unchanged_values"}, {res.nt, "nontrivial"}, {res.scribbled > 0, "alias_request_overwritten_after_call"}, {res.pooled >= 2, "alias_pooled_buffer_reused"}, {cs.AliasReads, "alias_get_buffers_overwritten"}, {res.skipped > 0, "update_left_out_for_known_finding"}, {res.cutShort, "cut_short_at_known_finding"}} {
			if cl.on {
				lib.Class(cl.name)
			}
		}
		if res.nt {
			lib.NonTrivialCase(cs)
		}
	})
}

// TestKnown_MemTreePoisonedByPendingRoot is the minimal form of finding C04-memtree-pending-poison, without rapid.
// prefix + memTree (leaf values not cached): Set {a=1,b=2} on the empty root at height 1 commits R. MemSet {a=1}
// on R at height 2 recomputes the same content, so it replies R again; it is rolled back. Nothing of it was
// committed, so R must still read a=1, b=2.
func TestKnown_MemTreePoisonedByPendingRoot(t *testing.T) {
	defer lib.Flush()
	cs := caseT{Cfg: cfgT{Prefix: true, MemTree: true}, Ops: []opT{
		{Op: "set", KV: [][2]string{{"a", "1"}, {"b", "2"}}},
		{Op: "memset", Parent: 1, KV: [][2]string{{"a", "1"}}},
		{Op: "rollback"}}}
	heightBase += 1000
	f := open(cs.Cfg, "", false)
	defer f.close()
	keys := [][]byte{[]byte("a"), []byte("b")}
	r, err := f.st.Set(storeSet(emptyRoot, cs.Ops[0].KV, heightBase+1), true)
	if err != nil || len(r) == 0 {
		lib.Inconclusive("C04 pinned fixture: Set replied %x, %v", r, err)
	}
	if got := f.st.Get(&types.StoreGet{StateHash: r, Keys: keys}); fmt.Sprintf("%s", got) != "[1 2]" {
		lib.Inconclusive("C04 pinned fixture: committed root reads %q", got)
	}
	r2, err := f.st.MemSet(storeSet(r, cs.Ops[1].KV, heightBase+2), true)
	if err != nil || !bytes.Equal(r, r2) {
		return // rewriting an unchanged value no longer yields the parent's root: the scenario does not arise
	}
	if _, err := f.st.Rollback(&types.ReqHash{Hash: r2}); err != nil {
		lib.Inconclusive("C04 pinned fixture: Rollback of the pending root: %v", err)
	}
	got, panicked := func() (vals [][]byte, p interface{}) {
		defer func() { p = recover() }()
		return f.st.Get(&types.StoreGet{StateHash: r, Keys: keys}), nil
	}()
	if panicked != nil || fmt.Sprintf("%s", got) != "[1 2]" {
		lib.KnownOrViolation(t, prop, "TestKnown_MemTreePoisonedByPendingRoot", knownPoison, cs,
			fmt.Sprintf("after MemSet+Rollback of an update that recomputes a committed root at another height, reading that committed root gives %q, panic: %v (want a=1, b=2)", got, panicked))
	}
}
