package c04

import (
	"fmt"
	"testing"

	"github.com/33cn/chain33/types"
)

func TestScratch3(t *testing.T) {
	big := [][2]string{{"k59", "v8"}, {"k09", "v16"}, {"k06", "v2"}, {"k10", "v4"}, {"k38", "v1"}, {"k07", "v3"}, {"k14", "v24"}, {"k52", "v2"}, {"k28", "v17"}, {"k41", "v19"}, {"k00", "v6"}, {"k26", "v4"}, {"k23", "v30"}, {"k43", "v14"}, {"k46", "v8"}, {"k20", "v9"}, {"k05", "v2"}, {"k01", "v22"}, {"k21", "v21"}, {"k13", "v18"}, {"k37", "v26"}, {"k03", "v15"}, {"k44", "v0"}, {"k02", "v13"}, {"k36", "v8"}}
	small := [][2]string{{"ba", "v28"}, {"a", "v20"}, {"ab", "v0"}, {"\x00", "v9"}, {"f", "v1"}}
	var keys [][]byte
	for _, kv := range append(append([][2]string{}, big...), small...) {
		keys = append(keys, []byte(kv[0]))
	}
	for mode := 0; mode < 8; mode++ {
		dir := scratchDir()
		c := cfgT{MemTree: true, LevelDB: true}
		f := open(c, dir, false)
		p2, _ := f.st.MemSet(storeSet(emptyRoot, small, 1), false)
		f.close()
		f = open(c, dir, false)
		if mode&1 != 0 {
			f.st.Get(&types.StoreGet{StateHash: p2, Keys: keys})
		}
		p8, _ := f.st.MemSet(storeSet(emptyRoot, big, 1), false)
		if mode&2 != 0 {
			f.st.Get(&types.StoreGet{StateHash: p2, Keys: keys})
		}
		f.st.Commit(&types.ReqHash{Hash: p8})
		if mode&4 != 0 {
			f.st.Get(&types.StoreGet{StateHash: p2, Keys: keys})
		}
		func() {
			defer func() { fmt.Println(mode, "recovered:", recover()) }()
			f.st.MemSet(storeSet(p8, small, 2), false)
		}()
		f.close()
	}
}
