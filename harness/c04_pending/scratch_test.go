package c04

import (
	"encoding/json"
	"fmt"
	"os"
	"testing"
)

type tbT struct{ *testing.T }

func TestScratchReplay(t *testing.T) {
	b, err := os.ReadFile(os.Getenv("C04_REPLAY"))
	if err != nil {
		t.Skip()
	}
	var r struct{ Case caseT }
	if err := json.Unmarshal(b, &r); err != nil {
		t.Fatal(err)
	}
	n := len(r.Case.Ops)
	// greedy minimisation: drop ops while it still fails
	fails := func(cs caseT) (failed bool) {
		defer func() {
			if recover() != nil {
				failed = true
			}
		}()
		ft := &fakeT{}
		runSequential(ft, "x", cs)
		return ft.failed
	}
	cs := r.Case
	for i := 0; i < len(cs.Ops); {
		c2 := caseT{cs.Cfg, append(append([]opT{}, cs.Ops[:i]...), cs.Ops[i+1:]...)}
		if fails(c2) {
			cs = c2
		} else {
			i++
		}
	}
	fmt.Println("from", n, "to", len(cs.Ops), cs.Cfg)
	for _, o := range cs.Ops {
		j, _ := json.Marshal(o)
		fmt.Println(string(j))
	}
}

type fakeT struct{ failed bool }

func (f *fakeT) Fatalf(format string, a ...interface{}) { f.failed = true; panic("fail") }
func (f *fakeT) Helper()                                {}
