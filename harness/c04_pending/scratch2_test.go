package c04

import (
	"fmt"
	"testing"
)

type msgT struct{ msg string }

func (f *msgT) Fatalf(format string, a ...interface{}) { f.msg = fmt.Sprintf(format, a...); panic("fail") }
func (f *msgT) Helper()                                {}

func TestScratch2(t *testing.T) {
	big := [][2]string{{"k59", "v8"}, {"k09", "v16"}, {"k06", "v2"}, {"k10", "v4"}, {"k38", "v1"}, {"k07", "v3"}, {"k14", "v24"}, {"k52", "v2"}, {"k28", "v17"}, {"k41", "v19"}, {"k00", "v6"}, {"k26", "v4"}, {"k23", "v30"}, {"k43", "v14"}, {"k46", "v8"}, {"k20", "v9"}, {"k05", "v2"}, {"k01", "v22"}, {"k21", "v21"}, {"k13", "v18"}, {"k37", "v26"}, {"k03", "v15"}, {"k44", "v0"}, {"k02", "v13"}, {"k36", "v8"}}
	small := [][2]string{{"ba", "v28"}, {"a", "v20"}, {"ab", "v0"}, {"\x00", "v9"}, {"f", "v1"}}
	ops := []opT{{Op: "memset", Parent: 1, KV: small}, {Op: "restart"}, {Op: "memset", KV: big}, {Op: "commit"}, {Op: "memset", Parent: 1, KV: small}}
	ft := &msgT{}
	defer func() {
		recover()
		fmt.Println("MSG:", ft.msg)
	}()
	runSequential(ft, "x", caseT{cfgT{MemTree: true, LevelDB: true}, ops})
}
