package c04

// Concurrent variant of C04: the store module is driven through the message queue, where base.go serves every
// request in its own goroutine. A few committed roots are prepared sequentially; then 8 client goroutines
// compute competing updates on those roots (same parent => same height), commit, roll back or abandon them and
// read committed roots, all at once. The harness only enforces causality (a commit/rollback is sent after the
// reply to its own MemSet; a root is read after the reply to its commit). Every update carries a marker key that
// is unique to it, so all computed roots are distinct and every reply has exactly one correct value whatever the
// interleaving. Run under -race in the thorough tier.

import (
	"bytes"
	"fmt"
	"os"
	"sync"
	"testing"
	"time"

	"github.com/33cn/chain33/queue"
	"github.com/33cn/chain33/types"
	"pgregory.net/rapid"
	"verifharness/lib"
)

const workers = 8

type taskT struct {
	// one of: compute an update ("commit" | "rollback" | "abandon" says what happens to it), or read
	Fate   string      `json:"fate,omitempty"`
	ID     int         `json:"id,omitempty"`
	Parent int         `json:"parent"` // index into the prepared roots (0 = empty root)
	KV     [][2]string `json:"kv,omitempty"`
	Read   bool        `json:"read,omitempty"` // read root number Parent among: prepared roots + roots this worker committed
	Alias  int         `json:"alias,omitempty"` // update: what the worker does with the request's memory after the reply (alias* bits)
}

type concCaseT struct {
	Cfg     cfgT          `json:"cfg"`
	Base    [][][2]string `json:"base"` // prepared chain: root i+1 = root i + Base[i]
	Workers [][]taskT     `json:"workers"`
}

var errWatchdog = fmt.Errorf("watchdog")

func call(cl queue.Client, ty int64, data interface{}) (*queue.Message, error) {
	msg := cl.NewMessage("store", ty, data)
	if err := cl.Send(msg, true); err != nil {
		return nil, err
	}
	reply, err := cl.WaitTimeout(msg, 120*time.Second)
	if err == queue.ErrQueueTimeout {
		return nil, errWatchdog
	}
	return reply, err
}

// qMemSet sends one update; once the reply is in, the client treats the request's memory as its own again
// (alias bits and pool as in the sequential variant: the message carries pointers, not copies).
func qMemSet(cl queue.Client, parent []byte, kv [][2]string, height int64, alias int, pool []byte) ([]byte, error) {
	if alias&aliasPool == 0 {
		pool = nil
	}
	req := &types.StoreSetWithSync{Storeset: buildSet(parent, kv, height, pool), Sync: false}
	reply, err := call(cl, types.EventStoreMemSet, req)
	if err != nil {
		return nil, err
	}
	root := append([]byte(nil), reply.GetData().(*types.ReplyHash).GetHash()...)
	scribble(req.Storeset, alias)
	return root, nil
}

func qHash(cl queue.Client, ty int64, root []byte) ([]byte, error) {
	reply, err := call(cl, ty, &types.ReqHash{Hash: root})
	if err != nil {
		return nil, err
	}
	return reply.GetData().(*types.ReplyHash).GetHash(), nil
}

// qGet reads through the queue with key buffers of its own, which it overwrites once the reply is in.
func qGet(cl queue.Client, root []byte, keys [][]byte) ([][]byte, error) {
	req := &types.StoreGet{StateHash: root}
	for _, k := range keys {
		req.Keys = append(req.Keys, append([]byte{}, k...))
	}
	reply, err := call(cl, types.EventStoreGet, req)
	if err != nil {
		return nil, err
	}
	for _, k := range req.Keys {
		for i := range k {
			k[i] ^= 0x5a
		}
	}
	req.Keys = req.Keys[:0]
	return reply.GetData().(*types.StoreReplyValue).Values, nil
}

func compare(root []byte, keys [][]byte, got [][]byte, want map[string]string) string {
	for i, g := range got {
		w, ok := want[string(keys[i])]
		if (ok && !bytes.Equal(g, []byte(w))) || (!ok && g != nil) {
			return fmt.Sprintf("committed root %x: key %q reads %q while other updates are in flight, the content committed there has %q (present=%v)", root, keys[i], g, w, ok)
		}
	}
	return ""
}

type branchResult struct {
	task    taskT
	worker  int
	root    []byte
	content map[string]string
}

func genConcCase(t *rapid.T) concCaseT {
	cs := concCaseT{Cfg: genCfg(t)}
	for i, n := 0, rapid.IntRange(0, 3).Draw(t, "prepared"); i < n; i++ {
		cs.Base = append(cs.Base, genKV(t, 1))
	}
	id := 0
	emptyOn := map[int]bool{}
	for w := 0; w < workers; w++ {
		var tasks []taskT
		for i, n := 0, rapid.IntRange(1, 5).Draw(t, "ntasks"); i < n; i++ {
			// few distinct parents, so that competing updates on one parent are the rule
			parent := rapid.SampledFrom([]int{len(cs.Base), len(cs.Base), len(cs.Base), 0, 1, 2}).Draw(t, "parent") % (len(cs.Base) + 1)
			if rapid.IntRange(0, 3).Draw(t, "read") == 0 {
				tasks = append(tasks, taskT{Read: true, Parent: rapid.IntRange(0, 8).Draw(t, "readRoot")})
				continue
			}
			id++
			tk := taskT{ID: id, Parent: parent, Fate: rapid.SampledFrom([]string{"commit", "commit", "rollback", "rollback", "abandon"}).Draw(t, "fate"), Alias: genAlias(t)}
			// at most one empty update per parent: two of them would share the pending entry of the parent hash
			if !emptyOn[parent] && rapid.IntRange(0, 11).Draw(t, "emptyBatch") == 0 {
				emptyOn[parent] = true
			} else {
				tk.KV = append(genKV(t, 0), [2]string{fmt.Sprintf("marker-%03d", id), fmt.Sprint(id)})
			}
			tasks = append(tasks, tk)
		}
		cs.Workers = append(cs.Workers, tasks)
	}
	return cs
}

func runConcurrent(t lib.TB, test string, cs concCaseT) (nt bool) {
	dir := scratchDir()
	defer os.RemoveAll(dir)
	heightBase += 1000
	f := open(cs.Cfg, dir, true)
	defer func() { f.close() }()
	fail := func(format string, a ...interface{}) {
		lib.Violation(t, prop, test, cs, format, a...)
	}
	guard := func(err error, what string) {
		if err == errWatchdog {
			lib.Inconclusive("C04 concurrent: no reply to %s within 120s", what)
		}
	}
	m := newModel()
	for _, b := range cs.Base {
		for _, p := range b {
			m.universe[p[0]] = true
		}
	}
	for _, ts := range cs.Workers {
		for _, tk := range ts {
			for _, p := range tk.KV {
				m.universe[p[0]] = true
			}
		}
	}
	keys := m.keys()

	// phase 1, sequential: the prepared chain
	cl := f.q.Client()
	for i, b := range cs.Base {
		parent := m.corder[i]
		v := &verT{content: apply(m.committed[parent].content, b), height: int64(i + 1)}
		root, err := qMemSet(cl, []byte(parent), b, heightBase+v.height, 0, nil)
		guard(err, "MemSet")
		if err != nil || len(root) == 0 {
			fail("prepare %d: MemSet replied %x, %v", i, root, err)
		}
		reply, err := qHash(cl, types.EventStoreCommit, root)
		guard(err, "Commit")
		if err != nil || !bytes.Equal(reply, root) {
			fail("prepare %d: Commit of pending root %x replied %x, %v", i, root, reply, err)
		}
		if _, dup := m.committed[string(root)]; dup {
			return false // the drawn chain revisits a state; parents would be ambiguous
		}
		m.commit(string(root), v)
	}
	prepared := append([]string{}, m.corder...)
	// class of the listed finding C04-memtree-pending-poison (see c04_test.go): while it is listed, pairs that would
	// write the value the parent already has are left out of the updates under prefix + memTree
	if (cs.Cfg.Prefix || cs.Cfg.Prune) && cs.Cfg.MemTree && lib.Known(knownPoison) {
		for _, ts := range cs.Workers {
			for i := range ts {
				var kept [][2]string
				for _, p := range ts[i].KV {
					if old, ok := m.committed[prepared[ts[i].Parent]].content[p[0]]; ok && old == p[1] {
						lib.ExcludedKnown(knownPoison)
						continue
					}
					kept = append(kept, p)
				}
				ts[i].KV = kept
			}
		}
	}

	// phase 2, concurrent
	var wg sync.WaitGroup
	results := make([][]branchResult, len(cs.Workers))
	failures := make([]string, len(cs.Workers))
	watchdog := make([]string, len(cs.Workers))
	for w := range cs.Workers {
		wg.Add(1)
		go func(w int) {
			defer wg.Done()
			cl := f.q.Client()
			pool := make([]byte, 4096) // this worker's reusable encode buffer
			readable := append([]string{}, prepared...)
			contents := map[string]map[string]string{}
			for _, r := range prepared {
				contents[r] = m.committed[r].content
			}
			bad := func(err error, what, format string, a ...interface{}) bool {
				if err == errWatchdog {
					watchdog[w] = what
				} else {
					failures[w] = fmt.Sprintf("worker %d: ", w) + fmt.Sprintf(format, a...)
				}
				return true
			}
			for _, tk := range cs.Workers[w] {
				if tk.Read {
					root := readable[tk.Parent%len(readable)]
					got, err := qGet(cl, []byte(root), keys)
					if err != nil && bad(err, "Get", "Get at %x: %v", root, err) {
						return
					}
					if msg := compare([]byte(root), keys, got, contents[root]); msg != "" && bad(nil, "", "%s", msg) {
						return
					}
					continue
				}
				parent := prepared[tk.Parent]
				pv := m.committed[parent]
				content := apply(pv.content, tk.KV)
				root, err := qMemSet(cl, []byte(parent), tk.KV, heightBase+pv.height+1, tk.Alias, pool)
				if (err != nil || len(root) == 0) && bad(err, "MemSet", "MemSet %d on committed parent %x replied %x, %v", tk.ID, parent, root, err) {
					return
				}
				if len(tk.KV) == 0 && !bytes.Equal(root, []byte(parent)) && bad(nil, "", "empty update %d on %x replied a different root %x", tk.ID, parent, root) {
					return
				}
				results[w] = append(results[w], branchResult{tk, w, root, content})
				switch tk.Fate {
				case "commit":
					reply, err := qHash(cl, types.EventStoreCommit, root)
					if (err != nil || !bytes.Equal(reply, root)) && bad(err, "Commit", "Commit of pending root %x (update %d) replied %x, %v", root, tk.ID, reply, err) {
						return
					}
					readable = append(readable, string(root))
					contents[string(root)] = content
					got, err := qGet(cl, root, keys)
					if err != nil && bad(err, "Get", "Get at %x: %v", root, err) {
						return
					}
					if msg := compare(root, keys, got, content); msg != "" && bad(nil, "", "%s", msg) {
						return
					}
				case "rollback":
					reply, err := qHash(cl, types.EventStoreRollback, root)
					if (err != nil || !bytes.Equal(reply, root)) && bad(err, "Rollback", "Rollback of pending root %x (update %d) replied %x, %v", root, tk.ID, reply, err) {
						return
					}
				}
			}
		}(w)
	}
	wg.Wait()
	for w := range cs.Workers {
		if watchdog[w] != "" {
			lib.Inconclusive("C04 concurrent: no reply to %s within 120s", watchdog[w])
		}
	}
	for w := range cs.Workers {
		if failures[w] != "" {
			fail("%s", failures[w])
		}
	}

	// phase 3, quiescent: fold the results into the model, read everything, restart, read everything again
	type tally struct {
		committed, discarded int
		by                   map[int]bool
	}
	perParent := map[int]*tally{}
	for _, rs := range results {
		for _, r := range rs {
			root := string(r.root)
			if len(r.task.KV) > 0 {
				if _, dup := m.committed[root]; dup {
					fail("update %d computed root %x, which already stands for other content", r.task.ID, r.root)
				}
				if _, dup := m.pending[root]; dup {
					fail("update %d computed root %x, which another update with different content also got", r.task.ID, r.root)
				}
				if _, dup := m.dead[root]; dup {
					fail("update %d computed root %x, which another update with different content also got", r.task.ID, r.root)
				}
			}
			v := &verT{content: r.content, height: m.committed[prepared[r.task.Parent]].height + 1}
			switch r.task.Fate {
			case "commit":
				m.commit(root, v)
			case "rollback":
				if _, ok := m.committed[root]; !ok {
					m.dead[root] = &deadT{content: r.content}
				}
			case "abandon":
				m.addPending(root, v)
			}
			tl := perParent[r.task.Parent]
			if tl == nil {
				tl = &tally{by: map[int]bool{}}
				perParent[r.task.Parent] = tl
			}
			tl.by[r.worker] = true
			if r.task.Fate == "commit" {
				tl.committed++
			} else {
				tl.discarded++
			}
		}
	}
	get := func(root []byte, keys [][]byte) [][]byte {
		vals, err := qGet(cl, root, keys)
		guard(err, "Get")
		if err != nil {
			fail("Get at %x: %v", root, err)
		}
		return vals
	}
	iterate := func(root []byte) (out [][2]string) {
		f.st.IterateRangeByStateHash(root, nil, nil, true, func(k, v []byte) bool {
			out = append(out, [2]string{string(k), string(v)})
			return false
		})
		return
	}
	if msg := checkReads(m, cs.Cfg, get, iterate); msg != "" {
		fail("after all workers finished: %s", msg)
	}
	if cs.Cfg.LevelDB {
		f.close()
		f = open(cs.Cfg, dir, true)
		cl = f.q.Client()
		for _, r := range append([]string{}, m.porder...) {
			if v := m.dropPending(r); m.committed[r] == nil {
				m.dead[r] = &deadT{content: v.content}
			}
		}
		if msg := checkReads(m, cs.Cfg, get, iterate); msg != "" {
			fail("after restart: %s", msg)
		}
	}
	// non-trivial: some parent received >= 2 updates from different workers, at least one of them committed and
	// at least one rolled back or abandoned
	for _, tl := range perParent {
		if len(tl.by) >= 2 && tl.committed >= 1 && tl.discarded >= 1 {
			nt = true
		}
	}
	return nt
}

func TestPropConcurrentQueue(t *testing.T) {
	defer lib.Flush()
	rapid.Check(t, func(t *rapid.T) {
		cs := genConcCase(t)
		lib.Eval()
		if runConcurrent(t, "TestPropConcurrentQueue", cs) {
			lib.Class("concurrent_nontrivial")
			lib.NonTrivialCase(cs)
		}
		lib.Class("concurrent_history")
		for _, ts := range cs.Workers {
			for _, tk := range ts {
				if !tk.Read && tk.Alias != 0 {
					lib.Class("concurrent_alias_update")
				}
			}
		}
		if cs.Cfg.MemTree {
			lib.Class("concurrent_cfg_memtree")
		}
		if cs.Cfg.LevelDB {
			lib.Class("concurrent_restart")
		}
	})
}
