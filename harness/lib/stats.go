// Package lib is the chain33-independent core shared by every check: coverage counters that become
// the evidence file, the violation/replay writer, and the known-findings reader.  It imports nothing
// from chain33 so that white-box tests injected into chain33 packages can use it without cycles.
package lib

import (
	"crypto/sha256"
	"encoding/binary"
	"encoding/json"
	"fmt"
	"os"
	"sort"
	"sync"
	"testing"
)

type statsT struct {
	mu          sync.Mutex
	Evaluations int64            `json:"evaluations"`
	Classes     map[string]int64 `json:"classes"`
	Excluded    map[string]int64 `json:"excluded_known"`
	NonTrivial  map[uint64]bool  `json:"-"`
	NTList      []uint64         `json:"nontrivial_fingerprints"`
	Samples     []interface{}    `json:"samples"`
	Notes       map[string]int64 `json:"notes"`
	Exhaustive  bool             `json:"exhaustive"`
	KnownHit    []string         `json:"known_findings_reproduced"`
}

var st = &statsT{Classes: map[string]int64{}, Excluded: map[string]int64{}, NonTrivial: map[uint64]bool{}, Notes: map[string]int64{}}

// MaxSamples bounds the number of rendered sample cases kept per process.
const MaxSamples = 4

// Eval counts one generated case (one execution of the property body).
func Eval() { st.mu.Lock(); st.Evaluations++; st.mu.Unlock() }

// EvalN counts n generated cases at once.
func EvalN(n int) { st.mu.Lock(); st.Evaluations += int64(n); st.mu.Unlock() }

// Class increments a per-class counter; the distribution is reported in the evidence file.
func Class(label string) { st.mu.Lock(); st.Classes[label]++; st.mu.Unlock() }

// ClassN adds n to a per-class counter.
func ClassN(label string, n int) { st.mu.Lock(); st.Classes[label] += int64(n); st.mu.Unlock() }

// Fingerprint hashes a rendering of a case to 64 bits.
func Fingerprint(parts ...interface{}) uint64 {
	h := sha256.New()
	for _, p := range parts {
		switch v := p.(type) {
		case []byte:
			h.Write(v)
		case string:
			h.Write([]byte(v))
		default:
			fmt.Fprintf(h, "%v", v)
		}
		h.Write([]byte{0})
	}
	return binary.LittleEndian.Uint64(h.Sum(nil)[:8])
}

// NonTrivial records a case, identified by fingerprint, as non-trivial under the property's stated rule.
// Distinctness is by fingerprint.
func NonTrivial(fp uint64) {
	st.mu.Lock()
	if !st.NonTrivial[fp] {
		st.NonTrivial[fp] = true
	}
	st.mu.Unlock()
}

// NonTrivialCase is NonTrivial(Fingerprint(rendering)) and also offers the rendering as a sample.
func NonTrivialCase(rendering interface{}) {
	b, _ := json.Marshal(rendering)
	NonTrivial(Fingerprint(b))
	Sample(rendering)
}

// Sample keeps up to MaxSamples rendered cases (first come).
func Sample(v interface{}) {
	st.mu.Lock()
	if len(st.Samples) < MaxSamples {
		b, err := json.Marshal(v)
		if err == nil {
			if len(b) > 4000 {
				st.Samples = append(st.Samples, string(b[:4000])+"…(truncated)")
			} else {
				var back interface{}
				_ = json.Unmarshal(b, &back)
				st.Samples = append(st.Samples, back)
			}
		}
	}
	st.mu.Unlock()
}

// SampleCount returns how many samples have been kept so far.
func SampleCount() int { st.mu.Lock(); defer st.mu.Unlock(); return len(st.Samples) }

// ExcludedKnown counts a case that matched the signature of a listed known finding and was therefore
// excluded from / tolerated by the search.
func ExcludedKnown(id string) { st.mu.Lock(); st.Excluded[id]++; st.mu.Unlock() }

// Note increments a free-form informational counter.
func Note(label string, n int) { st.mu.Lock(); st.Notes[label] += int64(n); st.mu.Unlock() }

// SetExhaustive marks the run as having enumerated its (bounded) space completely.
func SetExhaustive(b bool) { st.mu.Lock(); st.Exhaustive = b; st.mu.Unlock() }

// Flush writes the counters to $VERIF_STATS (no-op when unset). Call from TestMain after m.Run().
func Flush() {
	path := os.Getenv("VERIF_STATS")
	if path == "" {
		return
	}
	st.mu.Lock()
	defer st.mu.Unlock()
	st.NTList = st.NTList[:0]
	for fp := range st.NonTrivial {
		st.NTList = append(st.NTList, fp)
	}
	sort.Slice(st.NTList, func(i, j int) bool { return st.NTList[i] < st.NTList[j] })
	b, err := json.Marshal(st)
	if err != nil {
		fmt.Fprintln(os.Stderr, "verif: cannot marshal stats:", err)
		return
	}
	if err := os.WriteFile(path, b, 0o644); err != nil {
		fmt.Fprintln(os.Stderr, "verif: cannot write stats:", err)
	}
}

// Main is the TestMain body shared by all check packages.
func Main(m *testing.M) {
	code := m.Run()
	Flush()
	os.Exit(code)
}

// Tier returns "quick" or "thorough".
func Tier() string {
	if os.Getenv("VERIF_TIER") == "thorough" {
		return "thorough"
	}
	return "quick"
}

// Thorough reports whether the thorough tier is running.
func Thorough() bool { return Tier() == "thorough" }

// Pick returns q in the quick tier and t in the thorough tier.
func Pick(q, t int) int {
	if Thorough() {
		return t
	}
	return q
}
