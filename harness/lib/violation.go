package lib

import (
	"encoding/json"
	"fmt"
	"os"
	"sync"
)

// TB is the subset of *testing.T / *rapid.T the helpers need.
type TB interface {
	Fatalf(format string, args ...interface{})
	Helper()
}

type replayFile struct {
	Property string      `json:"property"`
	Test     string      `json:"test"`
	Message  string      `json:"message"`
	Case     interface{} `json:"case"`
}

// Violation renders the failing case to $VERIF_REPLAY_OUT (overwritten on every failure, so that after
// rapid's shrinking the file holds the minimal case, which rapid re-runs last) and fails the test.
func Violation(t TB, property, test string, c interface{}, format string, args ...interface{}) {
	t.Helper()
	msg := fmt.Sprintf(format, args...)
	if path := os.Getenv("VERIF_REPLAY_OUT"); path != "" {
		b, err := json.MarshalIndent(replayFile{Property: property, Test: test, Message: msg, Case: c}, "", " ")
		if err != nil {
			b, _ = json.Marshal(replayFile{Property: property, Test: test, Message: msg, Case: fmt.Sprintf("%+v", c)})
		}
		_ = os.WriteFile(path, b, 0o644)
	}
	t.Fatalf("VERIF-VIOLATION property=%s test=%s: %s", property, test, msg)
}

// Finding is one entry of /verif/known_findings.json.
type Finding struct {
	Status    string `json:"status"` // "known" or "fixed"
	Property  string `json:"property"`
	ID        string `json:"id"`
	What      string `json:"what"`
	Signature string `json:"signature,omitempty"`
	Pinned    string `json:"pinned,omitempty"`
	Commit    string `json:"commit,omitempty"`
	Record    string `json:"record,omitempty"`
}

type findingsFile struct {
	Findings []Finding `json:"findings"`
}

var (
	knownOnce sync.Once
	known     map[string]Finding
	reported  = map[string]bool{}
	repMu     sync.Mutex
)

func loadKnown() {
	known = map[string]Finding{}
	path := os.Getenv("VERIF_KNOWN")
	if path == "" {
		path = "/verif/known_findings.json"
	}
	b, err := os.ReadFile(path)
	if err != nil {
		return
	}
	var f findingsFile
	if json.Unmarshal(b, &f) != nil {
		return
	}
	for _, e := range f.Findings {
		if e.Status == "known" {
			known[e.ID] = e
		}
	}
}

// Known reports whether the finding id is listed with status "known" in the committed findings file.
// A "fixed" entry, or no entry, returns false: the oracle is then strict.
func Known(id string) bool {
	knownOnce.Do(loadKnown)
	_, ok := known[id]
	return ok
}

// ReportKnown prints the KNOWN-FINDING line for a listed finding that the pinned replay reproduced.
func ReportKnown(property, id, what string) {
	repMu.Lock()
	defer repMu.Unlock()
	if reported[id] {
		return
	}
	reported[id] = true
	fmt.Printf("KNOWN-FINDING: property=%s %s: %s\n", property, id, what)
	st.mu.Lock()
	st.KnownHit = append(st.KnownHit, id)
	st.mu.Unlock()
}

// KnownOrViolation is used by pinned regression tests: the pinned case failed its oracle; if the finding is
// listed it is reported as a known finding, otherwise it is a violation.
func KnownOrViolation(t TB, property, test, id string, c interface{}, what string) {
	t.Helper()
	if Known(id) {
		ReportKnown(property, id, what)
		return
	}
	Violation(t, property, test, c, "%s (finding %s is not listed as known)", what, id)
}

// Inconclusive aborts the process with the marker the driver maps to exit 2 (watchdog expiry, fixture could
// not be set up, …). Never use it for an oracle failure.
func Inconclusive(format string, args ...interface{}) {
	Flush()
	fmt.Printf("VERIF-INCONCLUSIVE "+format+"\n", args...)
	os.Exit(3)
}
