package lib

import (
	"os"
	"syscall"
)

// Native fuzzing runs the target in worker processes whose stderr the coordinator discards, so a runtime fatal error or
// a panic on a background goroutine leaves only "fuzzing process terminated unexpectedly". When VERIF_STDERR_FILE is
// set (the driver does this for fuzz phases) every process appends its stderr to that file, which makes the trace of a
// dying worker available for the violation report.
func init() {
	p := os.Getenv("VERIF_STDERR_FILE")
	if p == "" {
		return
	}
	f, err := os.OpenFile(p, os.O_CREATE|os.O_WRONLY|os.O_APPEND, 0644)
	if err != nil {
		return
	}
	_ = syscall.Dup2(int(f.Fd()), 2)
}
