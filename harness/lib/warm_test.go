package lib

import (
	"testing"

	_ "github.com/33cn/chain33/system"
	"github.com/33cn/chain33/util/testnode"
	"pgregory.net/rapid"
)

func TestWarm(t *testing.T) {
	_ = rapid.Int()
	n := testnode.New("--free--", nil)
	n.Close()
}
