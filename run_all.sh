#!/bin/bash
# usage: run_all.sh <tier> <parallel> [ids...]  -> writes build/runall/<ID>.log and prints a summary
tier=${1:-quick}; par=${2:-3}; shift 2
ids="$@"; [ -z "$ids" ] && ids=$(ls /verif/checks.d | sed 's/.json//')
mkdir -p /verif/build/runall
cd /verif
printf '%s\n' $ids | xargs -P $par -I{} bash -c 'st=$(date +%s); ./check run {} --tier '$tier' > build/runall/{}.log 2>&1; rc=$?; echo "{} rc=$rc $(( $(date +%s)-st ))s $(grep -c KNOWN-FINDING build/runall/{}.log) known | $(tail -1 build/runall/{}.log)"'
