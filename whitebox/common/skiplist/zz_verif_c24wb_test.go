package skiplist

import (
	"math/rand"
	"testing"

	"pgregory.net/rapid"
	"verifharness/lib"
)

// White-box structural invariants of the skip list behind C24: level-0 links sorted, prev pointers,
// tail and count consistent after every insert/delete.
func TestPropSkipListStructure(t *testing.T) {
	defer lib.Flush()
	rapid.Check(t, func(t *rapid.T) {
		lib.Eval()
		rand.Seed(rapid.Int64().Draw(t, "levelSeed"))
		sl := NewSkipList(&SkipValue{Score: -1})
		live := map[int64]*SkipValue{}
		n := rapid.IntRange(1, 80).Draw(t, "n")
		dels := 0
		for i := 0; i < n; i++ {
			s := rapid.Int64Range(-5, 5).Draw(t, "score")
			if rapid.Bool().Draw(t, "insert") {
				if _, ok := live[s]; !ok { // Queue only inserts a score that Find did not find
					v := &SkipValue{Score: s}
					sl.Insert(v)
					live[s] = v
				}
			} else {
				got := sl.Delete(&SkipValue{Score: s})
				_, ok := live[s]
				if (got == 1) != ok {
					lib.Violation(t, "C24", "TestPropSkipListStructure", nil, "Delete(%d)=%d, present=%v", s, got, ok)
				}
				if ok {
					dels++
				}
				delete(live, s)
			}
			// structure
			cnt := 0
			var prev *skipListNode
			for e := sl.header.next[0]; e != nil; e = e.next[0] {
				cnt++
				if e.prev != prev {
					lib.Violation(t, "C24", "TestPropSkipListStructure", nil, "prev pointer of %d wrong", e.Value.Score)
				}
				if prev != nil && prev.Value.Score <= e.Value.Score {
					lib.Violation(t, "C24", "TestPropSkipListStructure", nil, "level-0 order broken: %d before %d", prev.Value.Score, e.Value.Score)
				}
				prev = e
			}
			if cnt != len(live) || sl.Len() != cnt {
				lib.Violation(t, "C24", "TestPropSkipListStructure", nil, "count %d len %d model %d", cnt, sl.Len(), len(live))
			}
			if sl.tail != prev {
				lib.Violation(t, "C24", "TestPropSkipListStructure", nil, "tail pointer wrong")
			}
			for lv := 1; lv < sl.level; lv++ {
				for e := sl.header.next[lv]; e != nil; e = e.next[lv] {
					if sl.Find(e.Value) != e.Value {
						lib.Violation(t, "C24", "TestPropSkipListStructure", nil, "node on level %d not findable", lv)
					}
				}
			}
			for lv := sl.level; lv < maxLevel; lv++ {
				if sl.header.next[lv] != nil {
					lib.Violation(t, "C24", "TestPropSkipListStructure", nil, "link above level")
				}
			}
		}
		if dels >= 3 && len(live) >= 2 {
			lib.NonTrivial(lib.Fingerprint(n, dels, len(live), sl.level))
		}
	})
}
