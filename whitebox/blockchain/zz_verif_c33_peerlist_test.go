package blockchain

// C33 (height announcements): the peer list that the p2p module assembles from the peers' own "peer info" replies
// (protocol/peer: queryPeerInfo decodes a types.Peer from the remote stream; PeerInfoManager stores it unchanged;
// handleEventPeerInfo hands the stored values to the blockchain module) is taken over by BlockChain.FetchPeerList and
// then READ by the synchronisation goroutines.  None of them has a recover:
//
//   producer   SynRoutine: "go chain.FetchPeerList()" -> fetchPeerList (-> the first CheckBestChain)
//   consumers  SynRoutine: "go chain.SynBlocksFromPeers()", "go chain.CheckTipBlockHash()", "go chain.CheckBestChain(false)";
//              ReadBlockToExec / FastDownLoadBlocks / ChunkRecordSync / block finalizer goroutines, which call
//              GetPeerMaxBlkHeight, GetMaxPeerInfo, GetPeerInfo, getForkComparePeer, getActivePeersByHeight, GetPeerCount,
//              GetPeers, GetPeersMap, IsCaughtUp, GetBestChainPids, RecordFaultPeer
//
// A case = local chain height x peer list (entries went through the wire encoding, so a missing header is a nil
// pointer exactly as from a real peer) x which of the announced peers are recorded as faulty.  The harness runs the
// producer and then EVERY consumer inside a guard; a panic reaching the guard would have killed the node.  Afterwards
// a well-formed peer list must be taken over and the consumers must answer from it.
// The BlockChain is the one blockchain.New builds (tasks, maps, config) on a real queue and an empty in-memory block
// store; the local height is set through BlockStore.UpdateHeight2 and a one-node best-chain view; the p2p module is a
// responder that answers EventPeerInfo with the case's list and everything else (header requests) with an ok reply.

import (
	"fmt"
	"strings"
	"sync"
	"testing"

	dbm "github.com/33cn/chain33/common/db"
	"github.com/33cn/chain33/common/log/log15"
	"github.com/33cn/chain33/queue"
	"github.com/33cn/chain33/types"
	"pgregory.net/rapid"
	"verifharness/lib"
)

const c33KnownNilHeader = "C33-fetchpeerlist-nil-header"

type c33Peer struct {
	Name      string `json:"name"`
	Self      bool   `json:"self,omitempty"`
	NoHeader  bool   `json:"noHeader,omitempty"`
	Height    int64  `json:"height,omitempty"`
	Finalized bool   `json:"finalized,omitempty"`
	Faulty    bool   `json:"faulty,omitempty"` // after the list is taken over a block of this peer is recorded as faulty
}

type c33PeerListCase struct {
	Local int64     `json:"localHeight"`
	First bool      `json:"firstFetch"` // the node has not run its first best-chain check yet
	Peers []c33Peer `json:"peers"`
}

type c33PLFix struct {
	chain *BlockChain
	mu    sync.Mutex
	list  *types.PeerList
}

var (
	c33PLOnce sync.Once
	c33PL     *c33PLFix
)

func c33PLGet() *c33PLFix {
	c33PLOnce.Do(func() {
		log15.Root().SetHandler(log15.DiscardHandler())
		cfg := types.NewChain33Config(types.GetDefaultCfgstring())
		log15.Root().SetHandler(log15.DiscardHandler())
		q := queue.New("verif-c33-peerlist")
		q.SetConfig(cfg)
		go q.Start()
		f := &c33PLFix{}
		p2p := q.Client()
		p2p.Sub("p2p")
		go func() {
			for msg := range p2p.Recv() {
				if msg.Ty == types.EventPeerInfo {
					f.mu.Lock()
					l := f.list
					f.mu.Unlock()
					msg.Reply(p2p.NewMessage("blockchain", types.EventPeerList, l))
				} else {
					msg.Reply(p2p.NewMessage("blockchain", types.EventReply, &types.Reply{IsOk: true}))
				}
			}
		}()
		f.chain = New(cfg)
		f.chain.client = q.Client()
		f.chain.blockStore = NewBlockStore(f.chain, dbm.NewDB("c33-peerlist", "memdb", "", 0), f.chain.client)
		c33PL = f
	})
	return c33PL
}

// reset gives the chain the local height of the case and forgets what earlier cases left in the peer bookkeeping.
func (f *c33PLFix) reset(local int64, first bool) {
	c := f.chain
	c.blockStore.UpdateHeight2(local)
	c.bestChain = newChainView(&blockNode{height: local, hash: []byte(fmt.Sprint("tip-", local))})
	c.peerMaxBlklock.Lock()
	c.peerList = nil
	c.peerMaxBlklock.Unlock()
	c.faultpeerlock.Lock()
	c.faultPeerList = make(map[string]*FaultPeerInfo)
	c.faultpeerlock.Unlock()
	c.bestpeerlock.Lock()
	c.bestChainPeerList = make(map[string]*BestPeerInfo)
	c.bestpeerlock.Unlock()
	c.firstcheckbestchain = 1
	if first {
		c.firstcheckbestchain = 0
	}
}

func c33WirePeer(p c33Peer) *types.Peer {
	v := &types.Peer{Name: p.Name, Self: p.Self, Addr: "10.0.0.1", Port: 13802, Version: "6.0.0@1.0.0"}
	if !p.NoHeader {
		v.Header = &types.Header{Height: p.Height, Hash: []byte(fmt.Sprint("hash-", p.Height)), ParentHash: []byte("parent")}
	}
	if p.Finalized {
		v.Finalized = &types.SnowChoice{Height: p.Height, Hash: []byte("fin")}
	}
	var wire types.Peer
	if err := types.Decode(types.Encode(v), &wire); err != nil {
		lib.Inconclusive("peer round trip: %v", err)
	}
	return &wire
}

type c33PLRun struct {
	t    lib.TB
	test string
	c    c33PeerListCase
	f    *c33PLFix
}

func (r *c33PLRun) guard(path string, nilHeader bool, fn func()) {
	defer func() {
		e := recover()
		if e == nil {
			return
		}
		if nilHeader && lib.Known(c33KnownNilHeader) && strings.Contains(fmt.Sprint(e), "nil pointer dereference") {
			lib.ExcludedKnown(c33KnownNilHeader)
			return
		}
		lib.Violation(r.t, "C33", r.test, r.c, "panic escaped %s, which the synchronisation goroutines run without a recover (the node would die): %v", path, e)
	}()
	fn()
}

// feed = one FetchPeerList tick on the given announcements.
func (r *c33PLRun) feed(peers []c33Peer) {
	l := &types.PeerList{}
	nilHeader := false
	for _, p := range peers {
		l.Peers = append(l.Peers, c33WirePeer(p))
		nilHeader = nilHeader || p.NoHeader
	}
	r.f.mu.Lock()
	r.f.list = l
	r.f.mu.Unlock()
	r.f.chain.tickerwg.Add(1) // as SynRoutine does before "go chain.FetchPeerList()"
	r.guard("BlockChain.FetchPeerList", nilHeader, func() { r.f.chain.FetchPeerList() })
}

// consumers runs every reader of what fetchPeerList stored, as the synchronisation goroutines do.
func (r *c33PLRun) consumers(peers []c33Peer) {
	c := r.f.chain
	g := func(path string, fn func()) { r.guard(path, false, fn) }
	g("GetPeerMaxBlkHeight", func() { c.GetPeerMaxBlkHeight() })
	g("GetMaxPeerInfo", func() { c.GetMaxPeerInfo() })
	g("getForkComparePeer", func() { c.getForkComparePeer() })
	g("GetPeerCount / GetPeers / GetPeersMap", func() { c.GetPeerCount(); c.GetPeers(); c.GetPeersMap() })
	g("IsCaughtUp", func() { c.IsCaughtUp() })
	g("GetBestChainPids", func() { c.GetBestChainPids() })
	for _, h := range []int64{r.c.Local, r.c.Local + 1, 0, -1} {
		g("getActivePeersByHeight", func() { c.getActivePeersByHeight(h) })
	}
	for _, p := range peers {
		g("GetPeerInfo", func() { c.GetPeerInfo(p.Name) })
	}
	g("SynBlocksFromPeers", func() { c.SynBlocksFromPeers() })
	c.tickerwg.Add(1)
	g("CheckTipBlockHash", func() { c.CheckTipBlockHash() })
	c.tickerwg.Add(1)
	g("CheckBestChain", func() { c.CheckBestChain(false) })
}

func c33RunPeerList(t lib.TB, test string, c c33PeerListCase) {
	f := c33PLGet()
	f.reset(c.Local, c.First)
	r := &c33PLRun{t: t, test: test, c: c, f: f}
	r.feed(c.Peers)
	switch got := f.chain.GetPeers(); {
	case got == nil:
		lib.Class("stored_list_untouched_nil")
	case len(got) == 0:
		lib.Class("stored_list_empty")
	default:
		lib.Class("stored_list_nonempty")
	}
	r.consumers(c.Peers)
	// blocks of some announced peers turn out faulty (ProcessBlock records that); the consumers then skip those peers
	anyFaulty := false
	for _, p := range c.Peers {
		if p.Faulty {
			anyFaulty = true
			r.guard("RecordFaultPeer", false, func() { f.chain.RecordFaultPeer(p.Name, p.Height, []byte("bad"), types.ErrBlockHashNoMatch) })
		}
	}
	if anyFaulty {
		lib.Class("with_fault_peers")
		r.consumers(c.Peers)
	}
	// a second tick with the same announcements (the list is replaced, not merged)
	r.feed(c.Peers)
	r.consumers(c.Peers)
	// a well-formed announcement afterwards is taken over and the consumers answer from it
	good := c33Peer{Name: "probe-peer", Height: c.Local + 10}
	if c.Local > 1<<62 {
		good.Height = c.Local
	}
	r.feed([]c33Peer{good})
	r.consumers([]c33Peer{good})
	got := f.chain.GetPeers()
	if len(got) != 1 || got[0].Name != good.Name || got[0].Height != good.Height {
		lib.Violation(t, "C33", test, c, "after the peers' announcements a well-formed peer list was not taken over (peer list now has %d entries)", len(got))
	}
	if h, m, p := f.chain.GetPeerMaxBlkHeight(), f.chain.GetMaxPeerInfo(), f.chain.GetPeerInfo(good.Name); h != good.Height || m == nil || m.Name != good.Name || p == nil || f.chain.GetPeerCount() != 1 {
		lib.Violation(t, "C33", test, c, "after a well-formed peer list (one peer at height %d) the consumers do not answer from it: max height %d, max peer %v, peer info %v", good.Height, h, m, p)
	}
}

var c33PLNames = []string{"peerA", "peerB", "peerC", "", "16Uiu2HAm", strings.Repeat("n", 300)}

// Non-trivial: at least one entry is a remote peer's entry (not filtered out as "self") and the list either mixes
// entries with and without a header, carries extreme heights, or consists only of peers more than 128 blocks behind
// the local height.
func TestPropPeerListAnnouncements(t *testing.T) {
	defer lib.Flush()
	rapid.Check(t, func(t *rapid.T) {
		c := c33PeerListCase{Local: rapid.SampledFrom([]int64{0, 1, 100, 128, 129, 130, 200, 1000, 1 << 40}).Draw(t, "local"),
			First: rapid.IntRange(0, 3).Draw(t, "first") == 0}
		n := rapid.IntRange(0, 4).Draw(t, "n")
		shape := rapid.SampledFrom([]string{"mixed", "mixed", "allBehind", "around"}).Draw(t, "shape")
		remote, odd, behind := false, false, n > 0
		for i := 0; i < n; i++ {
			p := c33Peer{Name: rapid.SampledFrom(c33PLNames).Draw(t, "name"),
				Self:      rapid.IntRange(0, 5).Draw(t, "self") == 0,
				Finalized: rapid.Bool().Draw(t, "finalized"), Faulty: rapid.IntRange(0, 2).Draw(t, "faulty") == 0}
			switch shape {
			case "allBehind": // every announced height is more than 128 below the local height (or absurdly negative)
				p.Height = rapid.SampledFrom([]int64{c.Local - 129, c.Local - 130, c.Local - 1000, -129, -1 << 40, -1 << 63}).Draw(t, "height")
			case "around": // around the 128-block window
				p.Height = c.Local + rapid.SampledFrom([]int64{-130, -129, -128, -127, -1, 0, 1, 127, 128, 129}).Draw(t, "rel")
			default:
				p.NoHeader = rapid.IntRange(0, 2).Draw(t, "noHeader") == 0
				p.Height = rapid.SampledFrom([]int64{0, 1, 99, 100, 229, 1 << 40, -1, -1 << 63, 1<<63 - 1}).Draw(t, "height")
			}
			c.Peers = append(c.Peers, p)
			remote = remote || !p.Self
			odd = odd || (!p.Self && (p.NoHeader || p.Height < 0 || p.Height > 1<<41))
			behind = behind && (p.Self || p.NoHeader || p.Height < c.Local-128)
		}
		lib.Eval()
		lib.Class("shape_" + shape)
		if remote && behind {
			lib.Class("every_remote_peer_more_than_128_behind")
		}
		c33RunPeerList(t, "TestPropPeerListAnnouncements", c)
		if remote && (odd || behind) {
			lib.NonTrivialCase(c)
		}
	})
}

// One remote peer answers the peer-info request with a types.Peer that has no header field.
func TestKnown_FetchPeerListNilHeader(t *testing.T) {
	defer lib.Flush()
	f := c33PLGet()
	c := c33PeerListCase{Local: 100, Peers: []c33Peer{{Name: "peerA", NoHeader: true}}}
	f.reset(c.Local, false)
	f.mu.Lock()
	f.list = &types.PeerList{Peers: []*types.Peer{c33WirePeer(c.Peers[0])}}
	f.mu.Unlock()
	f.chain.tickerwg.Add(1)
	var pv interface{}
	func() {
		defer func() { pv = recover() }()
		f.chain.FetchPeerList()
	}()
	if pv != nil {
		lib.KnownOrViolation(t, "C33", "TestKnown_FetchPeerListNilHeader", c33KnownNilHeader, c,
			fmt.Sprintf("BlockChain.fetchPeerList dereferences peer.Header of a peer-supplied entry without a nil check, in a goroutine without recover: %v", pv))
	}
}

// Fixed regression: a node at height 200 whose only peers announce heights far below it, then the next sync tick.
func TestRegress_C33PeerListAllBehind(t *testing.T) {
	defer lib.Flush()
	for _, c := range []c33PeerListCase{
		{Local: 200, Peers: []c33Peer{{Name: "peerA", Height: 10}, {Name: "peerB", Height: 71}}},
		{Local: 0, First: true, Peers: []c33Peer{{Name: "peerA", Height: -129}, {Name: "peerB", Height: -1 << 63, Faulty: true}}},
		{Local: 130, Peers: []c33Peer{{Name: "peerA", Height: 1, Faulty: true}, {Name: "self", Self: true, Height: 130}}},
	} {
		lib.Eval()
		c33RunPeerList(t, "TestRegress_C33PeerListAllBehind", c)
	}
}
