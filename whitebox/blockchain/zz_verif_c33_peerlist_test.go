package blockchain

// C33 (height announcements): the peer list that the p2p module assembles from the peers' own "peer info" replies
// (protocol/peer: queryPeerInfo decodes a types.Peer from the remote stream; PeerInfoManager stores it unchanged;
// handleEventPeerInfo hands the stored values to the blockchain module) is consumed by BlockChain.FetchPeerList, which
// SynRoutine starts every few seconds as a bare goroutine ("go chain.FetchPeerList()", no recover): a panic there
// kills the node.  The harness runs FetchPeerList inside a guard against a scripted p2p module whose EventPeerInfo reply
// carries peer entries that went through the wire encoding (so e.g. a missing header arrives as a nil pointer, exactly
// as it does from a real peer).  Afterwards a well-formed peer list must still be taken over.

import (
	"fmt"
	"strings"
	"sync"
	"testing"

	"github.com/33cn/chain33/common/log/log15"
	"github.com/33cn/chain33/queue"
	"github.com/33cn/chain33/types"
	"pgregory.net/rapid"
	"verifharness/lib"
)

const c33KnownNilHeader = "C33-fetchpeerlist-nil-header"

type c33Peer struct {
	Name      string `json:"name"`
	Self      bool   `json:"self,omitempty"`
	NoHeader  bool   `json:"noHeader,omitempty"`
	Height    int64  `json:"height,omitempty"`
	Finalized bool   `json:"finalized,omitempty"`
}

type c33PeerListCase struct {
	Local int64     `json:"localHeight"`
	Peers []c33Peer `json:"peers"`
}

type c33PLFix struct {
	chain *BlockChain
	mu    sync.Mutex
	list  *types.PeerList
}

var (
	c33PLOnce sync.Once
	c33PL     *c33PLFix
)

func c33PLGet() *c33PLFix {
	c33PLOnce.Do(func() {
		log15.Root().SetHandler(log15.DiscardHandler())
		cfg := types.NewChain33Config(types.GetDefaultCfgstring())
		log15.Root().SetHandler(log15.DiscardHandler())
		q := queue.New("verif-c33-peerlist")
		q.SetConfig(cfg)
		go q.Start()
		f := &c33PLFix{}
		p2p := q.Client()
		p2p.Sub("p2p")
		go func() {
			for msg := range p2p.Recv() {
				if msg.Ty == types.EventPeerInfo {
					f.mu.Lock()
					l := f.list
					f.mu.Unlock()
					msg.Reply(p2p.NewMessage("blockchain", types.EventPeerList, l))
				}
			}
		}()
		// the fields fetchPeerList touches; firstcheckbestchain=1 keeps it from starting the best-chain probe
		f.chain = &BlockChain{client: q.Client(), blockStore: &BlockStore{}, tickerwg: &sync.WaitGroup{}, firstcheckbestchain: 1}
		c33PL = f
	})
	return c33PL
}

func c33WirePeer(p c33Peer) *types.Peer {
	v := &types.Peer{Name: p.Name, Self: p.Self, Addr: "10.0.0.1", Port: 13802, Version: "6.0.0@1.0.0"}
	if !p.NoHeader {
		v.Header = &types.Header{Height: p.Height, Hash: []byte(fmt.Sprint("hash-", p.Height)), ParentHash: []byte("parent")}
	}
	if p.Finalized {
		v.Finalized = &types.SnowChoice{Height: p.Height, Hash: []byte("fin")}
	}
	var wire types.Peer
	if err := types.Decode(types.Encode(v), &wire); err != nil {
		lib.Inconclusive("peer round trip: %v", err)
	}
	return &wire
}

func (f *c33PLFix) fetch(t lib.TB, test string, c c33PeerListCase, peers []c33Peer, local int64) {
	l := &types.PeerList{}
	nilHeader := false
	for _, p := range peers {
		l.Peers = append(l.Peers, c33WirePeer(p))
		nilHeader = nilHeader || p.NoHeader
	}
	f.mu.Lock()
	f.list = l
	f.mu.Unlock()
	f.chain.blockStore.height = local
	f.chain.tickerwg.Add(1) // as SynRoutine does before "go chain.FetchPeerList()"
	func() {
		defer func() {
			r := recover()
			if r == nil {
				return
			}
			if nilHeader && lib.Known(c33KnownNilHeader) && strings.Contains(fmt.Sprint(r), "nil pointer dereference") {
				lib.ExcludedKnown(c33KnownNilHeader)
				return
			}
			lib.Violation(t, "C33", test, c, "panic escaped BlockChain.FetchPeerList, which SynRoutine starts as a goroutine without a recover (the node would die): %v", r)
		}()
		f.chain.FetchPeerList()
	}()
}

func c33RunPeerList(t lib.TB, test string, c c33PeerListCase) {
	f := c33PLGet()
	f.fetch(t, test, c, c.Peers, c.Local)
	// a well-formed announcement afterwards is still taken over
	good := c33Peer{Name: "probe-peer", Height: c.Local + 10}
	f.fetch(t, test, c, []c33Peer{good}, c.Local)
	got := f.chain.GetPeers()
	if len(got) != 1 || got[0].Name != good.Name || got[0].Height != good.Height {
		lib.Violation(t, "C33", test, c, "after the peers' announcements a well-formed peer list was not taken over (peer list now has %d entries)", len(got))
	}
}

// Non-trivial: at least one entry is not filtered out by name/self before its header is looked at (it is a remote
// peer's entry) and the list mixes entries with and without a header or carries extreme heights.
func TestPropPeerListAnnouncements(t *testing.T) {
	defer lib.Flush()
	rapid.Check(t, func(t *rapid.T) {
		c := c33PeerListCase{Local: rapid.SampledFrom([]int64{0, 1, 100, 1000, 1 << 40}).Draw(t, "local")}
		n := rapid.IntRange(0, 4).Draw(t, "n")
		remote, odd := false, false
		for i := 0; i < n; i++ {
			p := c33Peer{Name: rapid.SampledFrom([]string{"peerA", "peerB", "", "16Uiu2HAm", strings.Repeat("n", 300)}).Draw(t, "name"),
				Self:      rapid.IntRange(0, 4).Draw(t, "self") == 0,
				NoHeader:  rapid.IntRange(0, 2).Draw(t, "noHeader") == 0,
				Height:    rapid.SampledFrom([]int64{0, 1, 99, 100, 229, 1 << 40, -1, -1 << 63, 1<<63 - 1}).Draw(t, "height"),
				Finalized: rapid.Bool().Draw(t, "finalized")}
			c.Peers = append(c.Peers, p)
			remote = remote || !p.Self
			odd = odd || (!p.Self && (p.NoHeader || p.Height < 0 || p.Height > 1<<41))
		}
		lib.Eval()
		if remote && odd {
			lib.Class("remote_entry_without_header_or_extreme_height")
		}
		c33RunPeerList(t, "TestPropPeerListAnnouncements", c)
		if remote && odd {
			lib.NonTrivialCase(c)
		}
	})
}

// One remote peer answers the peer-info request with a types.Peer that has no header field.
func TestKnown_FetchPeerListNilHeader(t *testing.T) {
	defer lib.Flush()
	f := c33PLGet()
	c := c33PeerListCase{Local: 100, Peers: []c33Peer{{Name: "peerA", NoHeader: true}}}
	f.mu.Lock()
	f.list = &types.PeerList{Peers: []*types.Peer{c33WirePeer(c.Peers[0])}}
	f.mu.Unlock()
	f.chain.blockStore.height = c.Local
	f.chain.tickerwg.Add(1)
	var pv interface{}
	func() {
		defer func() { pv = recover() }()
		f.chain.FetchPeerList()
	}()
	if pv != nil {
		lib.KnownOrViolation(t, "C33", "TestKnown_FetchPeerListNilHeader", c33KnownNilHeader, c,
			fmt.Sprintf("BlockChain.fetchPeerList dereferences peer.Header of a peer-supplied entry without a nil check, in a goroutine without recover: %v", pv))
	}
}
