package blockchain

// C32: push subscribers receive the sequence log in order without gaps, across delivery failures, retries,
// deactivation and re-registration; a sequence is recorded as delivered only after it was acknowledged.
//
// White-box: the real Push service (runTask loop, addSubscriber/check2ResumePush, UpdateSeq, getPushData) is driven
// with a scripted SequenceStore (growing log with add and delete/add bursts), an in-memory CommonStore and a
// PostService fake whose outcome per attempt comes from a generated failure pattern. The oracle looks only at what
// the subscriber endpoint saw: the sequence numbers decoded from *acknowledged* payloads must be contiguous and
// strictly increasing from the resume point, and the persisted "last pushed sequence" may never exceed the highest
// acknowledged one. Wall-clock only paces the harness (the service sleeps 1s after a failed post); no verdict
// depends on it.

import (
	"fmt"
	"sync"
	"testing"
	"time"

	dbm "github.com/33cn/chain33/common/db"
	"github.com/33cn/chain33/types"
	"pgregory.net/rapid"
	"verifharness/lib"
)

type c32SeqStore struct {
	mu     sync.Mutex
	cfg    *types.Chain33Config
	recs   []*types.BlockSequence
	blocks map[string]*types.BlockDetail
	chain  []string // current best chain (hashes) per height
	nonce  int64
	sizes  map[string]int // reported stored size per block (the value the batch limit uses); absent = the real encoded size
	big    int            // reported size of the blocks created by the current grow (0 = real)
}

func (s *c32SeqStore) newBlock() *types.BlockDetail {
	s.nonce++
	parent := make([]byte, 32)
	if len(s.chain) > 0 {
		parent = []byte(s.chain[len(s.chain)-1])
	}
	b := &types.Block{Height: int64(len(s.chain)), ParentHash: parent, BlockTime: 1600000000 + s.nonce,
		Txs: []*types.Transaction{{Execer: []byte("none"), Payload: []byte(fmt.Sprint(s.nonce)), Nonce: s.nonce}}}
	d := &types.BlockDetail{Block: b, Receipts: []*types.ReceiptData{{Ty: types.ExecOk}}}
	h := string(b.Hash(s.cfg))
	s.blocks[h] = d
	if s.big > 0 {
		s.sizes[h] = s.big
	}
	return d
}

// grow appends n add records; with reorg, first deletes up to two tip blocks (delete records) and re-adds.
func (s *c32SeqStore) grow(n int, reorg bool, bigKiB int, flap bool) int64 {
	s.mu.Lock()
	defer s.mu.Unlock()
	s.big = bigKiB * 1024
	if flap {
		// the chain reorganises away from its top blocks and back to the very same blocks: delete records followed by add
		// records of the same hashes
		var back []string
		for k := 0; k < 2 && len(s.chain) > 1; k++ {
			top := s.chain[len(s.chain)-1]
			s.recs = append(s.recs, &types.BlockSequence{Hash: []byte(top), Type: types.DelBlock})
			s.chain = s.chain[:len(s.chain)-1]
			back = append([]string{top}, back...)
		}
		for _, h := range back {
			s.chain = append(s.chain, h)
			s.recs = append(s.recs, &types.BlockSequence{Hash: []byte(h), Type: types.AddBlock})
		}
	}
	if reorg {
		for k := 0; k < 2 && len(s.chain) > 1; k++ {
			top := s.chain[len(s.chain)-1]
			s.recs = append(s.recs, &types.BlockSequence{Hash: []byte(top), Type: types.DelBlock})
			s.chain = s.chain[:len(s.chain)-1]
		}
	}
	for i := 0; i < n; i++ {
		d := s.newBlock()
		h := string(d.Block.Hash(s.cfg))
		s.chain = append(s.chain, h)
		s.recs = append(s.recs, &types.BlockSequence{Hash: []byte(h), Type: types.AddBlock})
	}
	return int64(len(s.recs) - 1)
}

func (s *c32SeqStore) LoadBlockLastSequence() (int64, error) {
	s.mu.Lock()
	defer s.mu.Unlock()
	if len(s.recs) == 0 {
		return -1, types.ErrHeightNotExist
	}
	return int64(len(s.recs) - 1), nil
}

func (s *c32SeqStore) GetBlockSequence(seq int64) (*types.BlockSequence, error) {
	s.mu.Lock()
	defer s.mu.Unlock()
	if seq < 0 || seq >= int64(len(s.recs)) {
		return nil, types.ErrHeightNotExist
	}
	return s.recs[seq], nil
}

func (s *c32SeqStore) GetBlockHeaderByHash(hash []byte) (*types.Header, error) {
	s.mu.Lock()
	defer s.mu.Unlock()
	d, ok := s.blocks[string(hash)]
	if !ok {
		return nil, types.ErrHashNotExist
	}
	return d.Block.GetHeader(s.cfg), nil
}

func (s *c32SeqStore) LoadBlockBySequence(seq int64) (*types.BlockDetail, int, error) {
	s.mu.Lock()
	defer s.mu.Unlock()
	if seq < 0 || seq >= int64(len(s.recs)) {
		return nil, 0, types.ErrHeightNotExist
	}
	d := s.blocks[string(s.recs[seq].Hash)]
	if sz, ok := s.sizes[string(s.recs[seq].Hash)]; ok {
		return d, sz, nil
	}
	return d, types.Size(d), nil
}

func (s *c32SeqStore) LastHeader() *types.Header {
	s.mu.Lock()
	defer s.mu.Unlock()
	return s.blocks[s.chain[len(s.chain)-1]].Block.GetHeader(s.cfg)
}

func (s *c32SeqStore) GetSequenceByHash(hash []byte) (int64, error) {
	s.mu.Lock()
	defer s.mu.Unlock()
	for i := len(s.recs) - 1; i >= 0; i-- {
		if string(s.recs[i].Hash) == string(hash) && s.recs[i].Type == types.AddBlock {
			return int64(i), nil
		}
	}
	return -1, types.ErrHashNotExist
}

type c32KV struct {
	mu sync.Mutex
	m  map[string][]byte
}

func (k *c32KV) SetSync(key, value []byte) error { return k.Set(key, value) }
func (k *c32KV) Set(key, value []byte) error {
	k.mu.Lock()
	k.m[string(key)] = append([]byte{}, value...)
	k.mu.Unlock()
	return nil
}
func (k *c32KV) GetKey(key []byte) ([]byte, error) {
	k.mu.Lock()
	defer k.mu.Unlock()
	v, ok := k.m[string(key)]
	if !ok {
		return nil, dbm.ErrNotFoundInDb
	}
	return v, nil
}
func (k *c32KV) PrefixCount(prefix []byte) int64 {
	v, _ := k.List(prefix)
	return int64(len(v))
}
func (k *c32KV) List(prefix []byte) ([][]byte, error) {
	k.mu.Lock()
	defer k.mu.Unlock()
	var out [][]byte
	for key, v := range k.m {
		if len(key) >= len(prefix) && key[:len(prefix)] == string(prefix) {
			out = append(out, v)
		}
	}
	if len(out) == 0 {
		return nil, dbm.ErrNotFoundInDb
	}
	return out, nil
}

type c32Attempt struct {
	Name string  `json:"name"`
	Nums []int64 `json:"nums"`
	OK   bool    `json:"ok"`
}

type c32Post struct {
	mu       sync.Mutex
	scripts  map[string][]bool // per subscriber: outcome of the i-th attempt (true = acknowledge); exhausted => acknowledge
	attempts []c32Attempt
	decodeEr string
}

func (p *c32Post) PostData(sub *types.PushSubscribeReq, data []byte, seq int64) error {
	var nums []int64
	switch PushType(sub.Type) {
	case PushBlock:
		var v types.BlockSeqs
		if err := types.Decode(data, &v); err != nil {
			p.decodeEr = err.Error()
		}
		for _, s := range v.Seqs {
			nums = append(nums, s.Num)
		}
	case PushBlockHeader:
		var v types.HeaderSeqs
		if err := types.Decode(data, &v); err != nil {
			p.decodeEr = err.Error()
		}
		for _, s := range v.Seqs {
			nums = append(nums, s.Num)
		}
	}
	p.mu.Lock()
	defer p.mu.Unlock()
	ok := true
	if sc := p.scripts[sub.Name]; len(sc) > 0 {
		ok = sc[0]
		p.scripts[sub.Name] = sc[1:]
	}
	p.attempts = append(p.attempts, c32Attempt{Name: sub.Name, Nums: nums, OK: ok})
	if !ok {
		return types.ErrPushSeqPostData
	}
	return nil
}

func (p *c32Post) count() int {
	p.mu.Lock()
	defer p.mu.Unlock()
	return len(p.attempts)
}

type c32Op struct {
	Op    string `json:"op"` // grow | sub | resub | failresub | restart
	N     int    `json:"n,omitempty"`
	Reorg bool   `json:"reorg,omitempty"`
	Minus bool   `json:"minusOne,omitempty"` // notify with -1, as disconnectBlock does
	Flap  bool   `json:"flap,omitempty"`     // before growing, the two top blocks are deleted and the same blocks added again
	At    int    `json:"at,omitempty"`       // sub with Start: which record of the log is the resume point (1 + At mod last)
	Big   int    `json:"bigKiB,omitempty"`   // stored size the sequence store reports for these blocks (batches are cut at 1 MiB)
	Name  string `json:"name,omitempty"`
	Type  int32  `json:"type,omitempty"`
	Start bool   `json:"start,omitempty"` // register with an explicit resume point (LastSequence/LastHeight/LastBlockHash)
}

type c32Case struct {
	Ops     []c32Op           `json:"ops"`
	Scripts map[string][]bool `json:"scripts"`
}

var c32Cfg *types.Chain33Config

func c32Gen(t *rapid.T) c32Case {
	c := c32Case{Scripts: map[string][]bool{}}
	names := []string{"a", "b"}
	for _, n := range names {
		var sc []bool
		k := rapid.IntRange(0, 4).Draw(t, "segments")
		for i := 0; i < k; i++ {
			switch rapid.IntRange(0, 3).Draw(t, "seg") {
			case 0:
				sc = append(sc, true, true)
			case 1:
				sc = append(sc, false, true)
			case 2:
				sc = append(sc, false, false, true)
			case 3:
				sc = append(sc, false, false, false) // deactivation
			}
		}
		c.Scripts[n] = sc
	}
	c.Ops = append(c.Ops, c32Op{Op: "grow", N: rapid.IntRange(2, 6).Draw(t, "n0")})
	c.Ops = append(c.Ops, c32Op{Op: "sub", Name: "a", Type: int32(rapid.IntRange(0, 1).Draw(t, "typeA")), Start: rapid.Bool().Draw(t, "startA"), At: rapid.IntRange(0, 200).Draw(t, "atA")})
	n := rapid.IntRange(3, 8).Draw(t, "nops")
	for i := 0; i < n; i++ {
		switch rapid.SampledFrom([]string{"grow", "grow", "grow", "sub", "resub", "failresub", "restart", "restart"}).Draw(t, "op") {
		case "failresub":
			// a delivery fails, and the subscriber re-registers while the task is still backing off; the chain keeps growing
			c.Ops = append(c.Ops, c32Op{Op: "failresub", Name: rapid.SampledFrom(names).Draw(t, "whoFR"), N: rapid.IntRange(1, 12).Draw(t, "nFR")})
		case "grow":
			c.Ops = append(c.Ops, c32Op{Op: "grow", N: rapid.IntRange(1, 25).Draw(t, "n"), Reorg: rapid.IntRange(0, 3).Draw(t, "reorg") == 0, Minus: rapid.IntRange(0, 4).Draw(t, "minus") == 0,
				Big: rapid.SampledFrom([]int{0, 0, 0, 150, 300, 400, 600, 1100}).Draw(t, "bigKiB"), Flap: rapid.IntRange(0, 3).Draw(t, "flap") == 0})
		case "sub":
			c.Ops = append(c.Ops, c32Op{Op: "sub", Name: "b", Type: int32(rapid.IntRange(0, 1).Draw(t, "typeB")), Start: rapid.Bool().Draw(t, "startB"), At: rapid.IntRange(0, 200).Draw(t, "atB")})
		case "restart":
			c.Ops = append(c.Ops, c32Op{Op: "restart"}, c32Op{Op: "grow", N: rapid.IntRange(1, 6).Draw(t, "nAfterRestart")})
		case "resub":
			c.Ops = append(c.Ops, c32Op{Op: "resub", Name: rapid.SampledFrom(names).Draw(t, "who")})
		}
	}
	c.Ops = append(c.Ops, c32Op{Op: "resub", Name: "a"}, c32Op{Op: "grow", N: 2}, c32Op{Op: "grow", N: 1})
	return c
}

func c32Run(t lib.TB, test string, c c32Case) (failThenOK, deactResume, resubInBackoff, sizeCut, resumeAmbiguous, restarted bool) {
	ss := &c32SeqStore{cfg: c32Cfg, blocks: map[string]*types.BlockDetail{}, sizes: map[string]int{}}
	kv := &c32KV{m: map[string][]byte{}}
	post := &c32Post{scripts: map[string][]bool{}}
	for k, v := range c.Scripts {
		post.scripts[k] = append([]bool{}, v...)
	}
	mkPush := func() *Push {
		return &Push{store: kv, sequenceStore: ss, tasks: map[string]*pushNotify{}, postService: post, cfg: c32Cfg, postFail2Sleep: 3, postwg: &sync.WaitGroup{}}
	}
	p := mkPush()
	defer func() { p.Close() }()
	subs := map[string]*types.PushSubscribeReq{}
	resume := map[string]int64{} // explicit resume point per subscriber (-1 = none)
	settle := func() {
		// pacing only: wait until the endpoint has seen no new attempt for a while (the service sleeps 1s after a failure)
		last, stable := post.count(), 0
		for i := 0; i < 900 && stable < 36; i++ {
			time.Sleep(100 * time.Millisecond)
			if n := post.count(); n != last {
				last, stable = n, 0
			} else {
				stable++
			}
		}
	}
	for _, op := range c.Ops {
		switch op.Op {
		case "grow":
			last := ss.grow(op.N, op.Reorg, op.Big, op.Flap)
			if op.Minus {
				p.UpdateSeq(-1)
			} else {
				p.UpdateSeq(last)
			}
		case "sub":
			if subs[op.Name] != nil {
				continue
			}
			s := &types.PushSubscribeReq{Name: op.Name, URL: "http://verif.invalid/" + op.Name, Type: op.Type, Encode: "proto"}
			resume[op.Name] = -1
			if op.Start {
				// resume after a drawn record of the log (LastSequence must be > 0 to be accepted, and the record at that
				// sequence must carry the given hash -- add or delete record alike)
				lastSeq, _ := ss.LoadBlockLastSequence()
				if lastSeq >= 1 {
					at := 1 + int64(op.At)%lastSeq
					r, _ := ss.GetBlockSequence(at)
					h, _ := ss.GetBlockHeaderByHash(r.Hash)
					s.LastSequence, s.LastHeight, s.LastBlockHash = at, h.Height+1, fmt.Sprintf("0x%x", r.Hash)
					resume[op.Name] = at
					if n, err := ss.GetSequenceByHash(r.Hash); err == nil && n != at {
						resumeAmbiguous = true // the same block also appears at another sequence of the log
					}
				}
			}
			if err := p.addSubscriber(s); err != nil {
				lib.Violation(t, "C32", test, c, "registering subscriber %s failed: %v", op.Name, err)
			}
			subs[op.Name] = s
		case "failresub":
			s := subs[op.Name]
			if s == nil {
				continue
			}
			// make the next attempt for this subscriber fail once
			post.mu.Lock()
			post.scripts[op.Name] = append([]bool{false, true}, post.scripts[op.Name]...)
			before := 0
			for _, a := range post.attempts {
				if a.Name == op.Name && !a.OK {
					before++
				}
			}
			post.mu.Unlock()
			p.UpdateSeq(ss.grow(op.N, false, 0, false))
			// pacing only: wait (bounded) until that failed attempt was made, then re-register at once, inside the back-off
			failedNow := false
			for i := 0; i < 100 && !failedNow; i++ {
				time.Sleep(50 * time.Millisecond)
				post.mu.Lock()
				n := 0
				for _, a := range post.attempts {
					if a.Name == op.Name && !a.OK {
						n++
					}
				}
				post.mu.Unlock()
				failedNow = n > before
			}
			if err := p.addSubscriber(s); err != nil {
				lib.Violation(t, "C32", test, c, "re-registering subscriber %s failed: %v", op.Name, err)
			}
			if failedNow {
				resubInBackoff = true
			}
			p.UpdateSeq(ss.grow(2, false, 0, false))
			time.Sleep(200 * time.Millisecond)
			p.UpdateSeq(ss.grow(1, false, 0, false))
		case "restart":
			// the node restarts: the push service is closed (every task finishes its current step) and a new one is
			// initialised over the same database, which reloads the active subscriptions
			p.Close()
			p = mkPush()
			p.init()
			if last, err := ss.LoadBlockLastSequence(); err == nil {
				p.UpdateSeq(last)
			}
			restarted = true
		case "resub":
			if s := subs[op.Name]; s != nil {
				if err := p.addSubscriber(s); err != nil {
					lib.Violation(t, "C32", test, c, "re-registering subscriber %s failed: %v", op.Name, err)
				}
			}
		}
		settle()
		// oracle over everything the endpoint has seen so far
		post.mu.Lock()
		atts := append([]c32Attempt{}, post.attempts...)
		de := post.decodeEr
		post.mu.Unlock()
		if de != "" {
			lib.Violation(t, "C32", test, c, "payload could not be decoded: %s", de)
		}
		lastAck := map[string]int64{}
		seenFail := map[string]int{}
		for i, a := range atts {
			if len(a.Nums) == 0 {
				lib.Violation(t, "C32", test, map[string]interface{}{"case": c, "attempts": atts[:i+1]}, "attempt %d for %s carried no sequence", i, a.Name)
			}
			for j := 1; j < len(a.Nums); j++ {
				if a.Nums[j] != a.Nums[j-1]+1 {
					lib.Violation(t, "C32", test, map[string]interface{}{"case": c, "attempts": atts[:i+1]}, "attempt %d for %s: sequences inside one payload not contiguous: %v", i, a.Name, a.Nums)
				}
			}
			if !a.OK {
				seenFail[a.Name]++
				continue
			}
			if prev, ok := lastAck[a.Name]; ok {
				if a.Nums[0] != prev+1 {
					lib.Violation(t, "C32", test, map[string]interface{}{"case": c, "attempts": atts[:i+1]}, "subscriber %s: acknowledged payload starts at sequence %d but the previous acknowledged payload ended at %d (gap, repeat or reordering)", a.Name, a.Nums[0], prev)
				}
				if seenFail[a.Name] > 0 {
					failThenOK = true
				}
			} else if r := resume[a.Name]; r >= 0 && a.Nums[0] != r+1 {
				lib.Violation(t, "C32", test, map[string]interface{}{"case": c, "attempts": atts[:i+1]}, "subscriber %s registered with resume point %d but its first acknowledged payload starts at %d", a.Name, r, a.Nums[0])
			}
			lastAck[a.Name] = a.Nums[len(a.Nums)-1]
			// classification only: was this payload cut by the 1 MiB batch limit (the next record existed but did not fit)?
			if s := subs[a.Name]; s != nil && PushType(s.Type) == PushBlock {
				sum := 0
				for _, n := range a.Nums {
					_, sz, _ := ss.LoadBlockBySequence(n)
					sum += sz
				}
				if _, sz, err := ss.LoadBlockBySequence(a.Nums[len(a.Nums)-1] + 1); err == nil && sum+sz >= pushMaxSize {
					sizeCut = true
				}
			}
		}
		for name := range subs {
			if b, err := kv.GetKey(calcLastPushSeqNumKey(name)); err == nil {
				n, _ := decodeHeight(b)
				hi, acked := lastAck[name]
				floor := resume[name] // the resume point itself is stored at registration
				if (acked && n > hi) || (!acked && n > floor) {
					lib.Violation(t, "C32", test, map[string]interface{}{"case": c, "attempts": atts}, "subscriber %s: recorded last pushed sequence %d exceeds the highest acknowledged sequence (%d, acked=%v)", name, n, hi, acked)
				}
			}
			if v, err := kv.GetKey(calcPushKey(name)); err == nil {
				var ps types.PushWithStatus
				if types.Decode(v, &ps) == nil && ps.Status == subscribeStatusNotActive {
					deactResume = true
				}
			}
		}
	}
	return
}

func TestPropPushOrderedGapFree(t *testing.T) {
	defer lib.Flush()
	if c32Cfg == nil {
		c32Cfg = types.NewChain33Config(types.GetDefaultCfgstring())
	}
	rapid.Check(t, func(t *rapid.T) {
		c := c32Gen(t)
		lib.Eval()
		f, d, rb, sc, ra, rs := c32Run(t, "TestPropPushOrderedGapFree", c)
		if rs {
			lib.Class("push_service_restarted")
		}
		if ra {
			lib.Class("resume_point_block_appears_twice_in_log")
		}
		if sc {
			lib.Class("payload_cut_by_size_limit")
		}
		if rb {
			lib.Class("reregistered_during_backoff")
		}
		if f {
			lib.Class("failed_post_then_ack")
		}
		if d {
			lib.Class("deactivated")
		}
		if f || d {
			lib.NonTrivialCase(c)
		}
	})
}

// TestRegress_C32RestartKeepsProgress: a subscriber with an explicit resume point acknowledges progress beyond it, the
// push service restarts on the same database, the chain grows: deliveries continue after the last acknowledged sequence.
func TestRegress_C32RestartKeepsProgress(t *testing.T) {
	defer lib.Flush()
	if c32Cfg == nil {
		c32Cfg = types.NewChain33Config(types.GetDefaultCfgstring())
	}
	for _, typ := range []int32{0, 1} {
		c := c32Case{Scripts: map[string][]bool{}, Ops: []c32Op{
			{Op: "grow", N: 6}, {Op: "sub", Name: "a", Type: typ, Start: true, At: 2}, {Op: "grow", N: 7},
			{Op: "restart"}, {Op: "grow", N: 3}, {Op: "restart"}, {Op: "grow", N: 1},
		}}
		lib.Eval()
		c32Run(t, "TestRegress_C32RestartKeepsProgress", c)
	}
}
