package mempool

// C31 (white-box part): the two routes by which a *delayed* transaction reaches the mempool's delay cache --
// EventAddDelayTx (eventAddDelayTx) and a mined none/CommitDelayTx transaction (addDelayTx on EventAddBlock) -- must
// refuse an inner transaction that touches a blocked account: sender, To, EVM contract address or 20-byte EVM Para,
// in any member when the delayed transaction is a pool-form group, in any spelling the address drivers accept.
// The delay cache is unexported, hence in-package.  Oracle: after the call the cache does not hold the inner
// transaction (and the event route answers "not ok"); the same call with an empty blacklist is the witness.
// The blacklist is process-global: installed per step with types.SetBlockedAccountsForTest, cleared right after.

import (
	"bytes"
	"fmt"
	"strings"
	"sync/atomic"
	"testing"

	"github.com/33cn/chain33/common"
	"github.com/33cn/chain33/common/address"
	"github.com/33cn/chain33/common/crypto"
	"github.com/33cn/chain33/queue"
	cty "github.com/33cn/chain33/system/dapp/coins/types"
	nty "github.com/33cn/chain33/system/dapp/none/types"
	"github.com/33cn/chain33/types"
	"pgregory.net/rapid"
	"verifharness/lib"
)

const vf31DelayGroup = "C31-delay-group-member"

type vf31Who struct {
	K   int  `json:"k"`
	Eth bool `json:"eth,omitempty"`
}

type vf31Spelled struct {
	vf31Who
	Sp int `json:"sp,omitempty"` // 0 canonical, 1 0x+UPPER, 2 0X+UPPER, 3 0X+lower, 4 no prefix, 5 no prefix UPPER
}

type vf31Tx struct {
	Kind string       `json:"kind"` // transfer (-> To), evmCall (-> ContractAddr), evmPara (-> Para), none (sender only)
	S    vf31Who      `json:"s"`
	R    *vf31Spelled `json:"r,omitempty"`
	// evm kinds carry the account in the payload only; tx.To is free: "" the evm executor address, "acct" an ordinary
	// unblocked account (ToAcct), "otherExec" the none executor's address
	ToMode string       `json:"to_mode,omitempty"`
	ToAcct *vf31Spelled `json:"to_acct,omitempty"`
}

func vf31EvmTo(sh vf31Tx) string {
	switch sh.ToMode {
	case "acct":
		return sh.ToAcct.String()
	case "otherExec":
		return address.ExecAddress("none")
	}
	return address.ExecAddress("evm")
}

type vf31Case struct {
	Blocked []vf31Spelled `json:"blocked"`
	Txs     []vf31Tx      `json:"txs"`   // 1 = single, 2..4 = pool-form group
	Route   string        `json:"route"` // "event" or "block"
	// Prime: before the delivery, and under the same blacklist installation, the SAME unsigned body (same transaction
	// ids: the id does not cover the signature) signed by unblocked keys (PrimeKey for every blocked sender) is sent
	// through this route ("" = no priming)
	Prime    string `json:"prime,omitempty"`
	PrimeKey int    `json:"prime_key,omitempty"`
	Height   int64  `json:"height"`
}

const vf31Keys = 5

var (
	vf31Privs []crypto.PrivKey
	vf31Btc   []string
	vf31Eth   []string
	vf31Nonce int64
	vf31Cfg   *types.Chain33Config
	vf31Mem   *Mempool
)

func vf31Init() {
	if vf31Mem != nil {
		return
	}
	c, err := crypto.Load("secp256k1", -1)
	if err != nil {
		lib.Inconclusive("secp256k1 driver: %v", err)
	}
	for i := 0; i < vf31Keys; i++ {
		p, err := c.PrivKeyFromBytes(bytes.Repeat([]byte{byte(0x41 + i)}, 32))
		if err != nil {
			lib.Inconclusive("key: %v", err)
		}
		vf31Privs = append(vf31Privs, p)
		vf31Btc = append(vf31Btc, address.PubKeyToAddr(0, p.PubKey().Bytes()))
		vf31Eth = append(vf31Eth, address.PubKeyToAddr(2, p.PubKey().Bytes()))
	}
	vf31Cfg = types.NewChain33Config(types.GetDefaultCfgstring())
	q := queue.New("channel")
	q.SetConfig(vf31Cfg)
	mcfg := *vf31Cfg.GetModuleConfig().Mempool
	mcfg.PoolCacheSize = 1 << 20 // delay cache = half of it: never full within a run
	vf31Mem = NewMempool(&mcfg)
	vf31Mem.client = q.Client() // no event loop: the handlers are called directly
}

func (w vf31Who) canonical() string {
	if w.Eth {
		return vf31Eth[w.K]
	}
	return vf31Btc[w.K]
}

func (s vf31Spelled) String() string {
	c := s.canonical()
	if !s.Eth {
		return c
	}
	switch s.Sp {
	case 1:
		return "0x" + strings.ToUpper(c[2:])
	case 2:
		return "0X" + strings.ToUpper(c[2:])
	case 3:
		return "0X" + c[2:]
	case 4:
		return c[2:]
	case 5:
		return strings.ToUpper(c[2:])
	}
	return c
}

func (w vf31Who) raw20() []byte {
	if w.Eth {
		b, _ := common.FromHex(vf31Eth[w.K])
		return b
	}
	a, err := address.NewBtcAddress(vf31Btc[w.K])
	if err != nil {
		panic(err)
	}
	return a.Hash160[:]
}

func vf31Build(sh vf31Tx) *types.Transaction {
	tx := &types.Transaction{Fee: 1e6, Nonce: atomic.AddInt64(&vf31Nonce, 1), ChainID: vf31Cfg.GetChainID()}
	r := ""
	if sh.R != nil {
		r = sh.R.String()
	}
	switch sh.Kind {
	case "transfer":
		tx.Execer = []byte("coins")
		tx.Payload = types.Encode(&cty.CoinsAction{Ty: cty.CoinsActionTransfer, Value: &cty.CoinsAction_Transfer{Transfer: &types.AssetsTransfer{Amount: 1, To: r}}})
		tx.To = r
	case "evmCall":
		tx.Execer = []byte("evm")
		tx.Payload = types.Encode(&types.EVMContractAction4Chain33{GasLimit: 1, Para: []byte("calldata-not-20-bytes-long"), ContractAddr: r})
		tx.To = vf31EvmTo(sh)
	case "evmPara":
		tx.Execer = []byte("evm")
		tx.Payload = types.Encode(&types.EVMContractAction4Chain33{Amount: 1, GasLimit: 1, Para: sh.R.raw20(), ContractAddr: address.ExecAddress("evm")})
		tx.To = vf31EvmTo(sh)
	default:
		tx.Execer = []byte("none")
		tx.Payload = []byte(fmt.Sprintf("note-%d", tx.Nonce))
		tx.To = address.ExecAddress("none")
	}
	return tx
}

func vf31Sign(tx *types.Transaction, w vf31Who) {
	ty := int32(types.SECP256K1)
	if w.Eth {
		ty = types.EncodeSignID(types.SECP256K1, 2)
	}
	tx.Sign(ty, vf31Privs[w.K])
}

// vf31Item builds the delayed transaction in pool form and says which members touch.
func vf31Item(c *vf31Case) (pool *types.Transaction, touch []bool) {
	blocked := map[vf31Who]bool{}
	for _, b := range c.Blocked {
		blocked[b.vf31Who] = true
	}
	txs := make([]*types.Transaction, len(c.Txs))
	for i, sh := range c.Txs {
		txs[i] = vf31Build(sh)
		touch = append(touch, blocked[sh.S] || (sh.R != nil && blocked[sh.R.vf31Who]))
	}
	if len(txs) > 1 {
		g, err := types.CreateTxGroup(txs, vf31Cfg.GetMinTxFeeRate())
		if err != nil {
			panic(err)
		}
		txs = g.Txs
	}
	vf31Body = txs
	return vf31Signed(c, txs, false), touch
}

var vf31Body []*types.Transaction // unsigned body of the item built last

// vf31Signed signs a copy of the body; with clean=true every blocked sender is replaced by an unblocked key.
func vf31Signed(c *vf31Case, body []*types.Transaction, clean bool) *types.Transaction {
	blocked := map[vf31Who]bool{}
	for _, b := range c.Blocked {
		blocked[b.vf31Who] = true
	}
	txs := make([]*types.Transaction, len(body))
	for i, sh := range c.Txs {
		signer := sh.S
		for k := c.PrimeKey; clean && blocked[signer]; k++ {
			signer = vf31Who{K: k % vf31Keys, Eth: sh.S.Eth}
			if blocked[signer] {
				signer.Eth = !signer.Eth
			}
		}
		txs[i] = types.CloneTx(body[i])
		vf31Sign(txs[i], signer)
	}
	if len(txs) == 1 {
		return txs[0]
	}
	return (&types.Transactions{Txs: txs}).Tx()
}

// vf31Deliver pushes the delayed transaction through the chosen route and reports whether the cache took it.
func vf31Deliver(c *vf31Case, pool *types.Transaction) (cached, replyOK bool) {
	if c.Route == "event" {
		msg := queue.NewMessage(0, "mempool", types.EventAddDelayTx, &types.DelayTx{Tx: pool, EndDelayTime: c.Height + 1000})
		vf31Mem.eventAddDelayTx(msg)
		resp, err := vf31Mem.client.Wait(msg)
		if err != nil {
			lib.Inconclusive("no reply to EventAddDelayTx: %v", err)
		}
		replyOK = resp.GetData().(*types.Reply).GetIsOk()
		_, cached = vf31Mem.cache.delayCache.contains(pool.Hash())
		return
	}
	// a block whose none transaction commits the delayed transaction (what EventAddBlock hands to addDelayTx)
	action := &nty.NoneAction{Ty: nty.TyCommitDelayTxAction, Value: &nty.NoneAction_CommitDelayTx{CommitDelayTx: &nty.CommitDelayTx{
		DelayTx: common.ToHex(types.Encode(pool)), RelativeDelayHeight: 5}}}
	commit := &types.Transaction{Execer: []byte(nty.NoneX), Payload: types.Encode(action), To: address.ExecAddress(nty.NoneX), Fee: 1e6, Nonce: atomic.AddInt64(&vf31Nonce, 1)}
	commit.Sign(types.SECP256K1, vf31Privs[0])
	cache := newDelayTxCache(16)
	vf31Mem.addDelayTx(cache, &types.Block{Height: c.Height, BlockTime: 1600000000 + c.Height, Txs: []*types.Transaction{commit}})
	_, cached = cache.contains(pool.Hash())
	return cached, cached
}

func vf31Run(t lib.TB, test string, c *vf31Case) {
	lib.Eval()
	vf31Init()
	defer types.SetBlockedAccountsForTest(nil)
	pool, touch := vf31Item(c)
	any, deep := false, true
	for i, tc := range touch {
		if !tc {
			continue
		}
		any = true
		sh := c.Txs[i]
		blockedSender := false
		for _, b := range c.Blocked {
			blockedSender = blockedSender || b.vf31Who == sh.S
		}
		if i == 0 && (blockedSender || sh.R.String() == sh.R.canonical()) {
			deep = false // a plain position: head / single, sender or canonically spelled
		}
	}
	tailOnly := len(touch) > 1 && any && !touch[0]
	var bl []string
	for _, b := range c.Blocked {
		bl = append(bl, b.String())
	}
	types.SetBlockedAccountsForTest(bl)
	if c.Prime != "" {
		// the clean-signed twin touches only if a position covered by the id does; then it primes nothing
		pc := *c
		pc.Route = c.Prime
		vf31Deliver(&pc, vf31Signed(c, vf31Body, true))
		lib.Class("primed_via_" + c.Prime)
	}
	cached, replyOK := vf31Deliver(c, pool)
	if c.Prime == "event" && c.Route == "event" {
		cached = false // the mempool's delay cache already holds this id from the clean-signed twin: only the reply tells
	}
	types.SetBlockedAccountsForTest(nil)
	lib.Class("route_" + c.Route)
	if !any {
		return
	}
	lib.Class("touching")
	for i, tc := range touch {
		if sh := c.Txs[i]; tc && sh.ToMode != "" && sh.R != nil {
			isB := false
			for _, b := range c.Blocked {
				isB = isB || b.vf31Who == sh.S
			}
			if !isB {
				lib.Class("touch_payload_only_free_to")
			}
		}
	}
	if cached || replyOK {
		if tailOnly && lib.Known(vf31DelayGroup) {
			lib.ExcludedKnown(vf31DelayGroup)
			return
		}
		lib.Violation(t, "C31", test, c, "route %s: delayed transaction touching a blocked account (members touching: %v) was accepted into the delay cache (cached=%v, reply ok=%v)", c.Route, touch, cached, replyOK)
	}
	// witness: a twin (fresh nonces) passes the same route when the blacklist is empty
	twin, _ := vf31Item(c)
	if wc, _ := vf31Deliver(c, twin); wc {
		lib.Class("witness_cached")
		if deep {
			lib.Class("nontrivial")
			lib.NonTrivialCase(c)
		}
	}
}

func vf31GenWho(t *rapid.T, l string) vf31Who {
	return vf31Who{K: rapid.IntRange(0, vf31Keys-1).Draw(t, l+"K"), Eth: rapid.Bool().Draw(t, l+"Eth")}
}

func vf31GenCase(t *rapid.T) *vf31Case {
	c := &vf31Case{Route: rapid.SampledFrom([]string{"event", "block"}).Draw(t, "route"), Height: rapid.Int64Range(1, 100).Draw(t, "height")}
	c.Prime = rapid.SampledFrom([]string{"", "block", "event", "block"}).Draw(t, "prime")
	c.PrimeKey = rapid.IntRange(0, vf31Keys-1).Draw(t, "primeKey")
	nb := rapid.IntRange(1, 2).Draw(t, "nb")
	for i := 0; i < nb; i++ {
		w := vf31GenWho(t, "b")
		c.Blocked = append(c.Blocked, vf31Spelled{vf31Who: w, Sp: rapid.IntRange(0, 5).Draw(t, "bSp")})
	}
	n := rapid.SampledFrom([]int{1, 1, 2, 3, 4}).Draw(t, "n")
	aim := rapid.IntRange(0, n-1).Draw(t, "aim")
	for i := 0; i < n; i++ {
		sh := vf31Tx{Kind: rapid.SampledFrom([]string{"transfer", "evmCall", "evmPara", "none"}).Draw(t, "kind"), S: vf31GenWho(t, "s")}
		hit := c.Blocked[rapid.IntRange(0, len(c.Blocked)-1).Draw(t, "hit")].vf31Who
		if sh.Kind != "none" {
			r := vf31GenWho(t, "r")
			if i == aim && rapid.IntRange(0, 3).Draw(t, "pos") > 0 {
				r = hit
			}
			sh.R = &vf31Spelled{vf31Who: r, Sp: rapid.IntRange(0, 5).Draw(t, "rSp")}
			if sh.Kind != "transfer" {
				sh.ToMode = rapid.SampledFrom([]string{"", "acct", "", "acct", "otherExec"}).Draw(t, "toMode")
				if sh.ToMode == "acct" {
					a := vf31GenWho(t, "toAcct")
					for blockedAcct := true; blockedAcct; {
						blockedAcct = false
						for _, b := range c.Blocked {
							blockedAcct = blockedAcct || b.vf31Who == a
						}
						if blockedAcct {
							if a.Eth = !a.Eth; !a.Eth {
								a.K = (a.K + 1) % vf31Keys
							}
						}
					}
					sh.ToAcct = &vf31Spelled{vf31Who: a, Sp: rapid.IntRange(0, 5).Draw(t, "toSp")}
				}
			}
		}
		if i == aim && (sh.R == nil || sh.R.vf31Who != hit) {
			sh.S = hit
		}
		c.Txs = append(c.Txs, sh)
	}
	return c
}

func TestPropC31DelayRoutes(t *testing.T) {
	defer lib.Flush()
	rapid.Check(t, func(t *rapid.T) { vf31Run(t, "TestPropC31DelayRoutes", vf31GenCase(t)) })
}

// TestKnown_C31DelayGroupMember pins finding C31-delay-group-member on both routes: a delayed two-member group whose
// head is clean and whose second member pays a blocked account.
func TestKnown_C31DelayGroupMember(t *testing.T) {
	defer lib.Flush()
	for _, route := range []string{"event", "block"} {
		lib.Eval()
		vf31Init()
		c := &vf31Case{Route: route, Height: 10, Blocked: []vf31Spelled{{vf31Who: vf31Who{K: 1}}},
			Txs: []vf31Tx{{Kind: "none", S: vf31Who{K: 2}}, {Kind: "transfer", S: vf31Who{K: 3}, R: &vf31Spelled{vf31Who: vf31Who{K: 1}}}}}
		pool, _ := vf31Item(c)
		types.SetBlockedAccountsForTest([]string{c.Blocked[0].String()})
		cached, replyOK := vf31Deliver(c, pool)
		types.SetBlockedAccountsForTest(nil)
		if cached || replyOK {
			lib.KnownOrViolation(t, "C31", "TestKnown_C31DelayGroupMember", vf31DelayGroup, c,
				fmt.Sprintf("route %s: a delayed pool-form group whose second member pays blocked account %s is accepted into the mempool delay cache (cached=%v, reply ok=%v): eventAddDelayTx / addDelayTx call CheckTxBlockedAccountImmediate on the head transaction only", route, c.Blocked[0].String(), cached, replyOK))
		}
	}
}
