package mempool

// C23: every list the pool hands to a block producer (EventTxList) is packable.
//
// A case builds a pool through ordinary submissions (mixed plain / eth-signed / group entries, eth nonces with gaps),
// optionally adds a same-nonce duplicate through a block rollback (the only path that pushes without the nonce
// check), ages some entries (Item.EnterTime), lets the chain move on (current nonces rise, header advances without
// the sweep having run, as when a submission in flight is pushed after the block's sweep), and then asks for lists
// with generated counts and exclusion lists. The oracle below is the property text evaluated on the harness's own
// records (specs, arrival sequence, scripted nonces, header); nothing is read back from base.go's filter.

import (
	"fmt"
	"testing"
	"time"

	"github.com/33cn/chain33/types"
	"pgregory.net/rapid"
	"verifharness/lib"
)

type vfC23Entry struct {
	ID      string     `json:"id"`
	Specs   []vfTxSpec `json:"specs"`
	Aged    bool       `json:"aged,omitempty"`
	Arrival int        `json:"arrival"` // position in the harness's own admission sequence
	tx      *types.Transaction
}

type vfC23Query struct {
	Count   int64    `json:"count"`
	Exclude []string `json:"exclude"` // entry ids, or "absent-N" for hashes that are not pooled
}

type vfC23Case struct {
	Height   int64            `json:"height"` // header at query time
	Time     int64            `json:"time"`
	CurNonce map[string]int64 `json:"curNonce"` // eth sender index -> current nonce at query time
	Pool     []*vfC23Entry    `json:"pool"`     // admitted entries still pooled at query time, in arrival order
	Queries  []vfC23Query     `json:"queries"`
}

// expired for the next block, from the property text: by height (0 < Expire <= 1e9: Expire <= height+1), by block
// time (Expire > 1e9: Expire <= last block time), or by pool age; a group is expired when any member is.
func (en *vfC23Entry) expired(height, btime int64) bool {
	if en.Aged {
		return true
	}
	for _, s := range en.Specs {
		if s.Expire != 0 && ((s.Expire <= types.ExpireBound && s.Expire <= height+1) || (s.Expire > types.ExpireBound && s.Expire <= btime)) {
			return true
		}
	}
	return false
}

func (en *vfC23Entry) ethSender() (int, bool) {
	s := en.Specs[0].Sender
	return s, vfSenders[s].eth
}

func TestPropProducerLists(t *testing.T) {
	defer lib.Flush()
	vfInitSenders()
	slow := 0
	rapid.Check(t, func(t *rapid.T) {
		intn := func(n int, label string) int { return rapid.IntRange(0, n-1).Draw(t, label) }
		h0, t0 := vfBaseHeight+int64(intn(50, "h0")), vfBaseTime+int64(intn(1000, "t0"))
		e := vfNewEnv(vfOpts{cap: 100, perAcc: 30, maxLast: 10, height: h0, btime: t0})
		defer e.close()
		c0 := int64(intn(3, "startNonce"))
		for i := 4; i <= 6; i++ {
			e.chain.nonce[vfSenders[i].addr] = c0
		}
		// ---- fill the pool through EventTx
		var admitted []*vfC23Entry
		byHash := map[string]*vfC23Entry{}
		uniq := int64(100)
		newSpec := func(eth bool) vfTxSpec {
			uniq++
			s := vfTxSpec{Sender: intn(4, "sender"), To: intn(vfNumSenders, "to"), Nonce: uniq, Fee: vfFee + uniq}
			if eth {
				s.Sender, s.Nonce = 4+intn(3, "ethSender"), c0+int64(intn(6, "ethNonce"))
			}
			switch intn(8, "expire") {
			case 0, 1:
				s.Expire = h0 + 2 + int64(intn(5, "expDH"))
			case 2, 3:
				s.Expire = t0 + 1 + int64(intn(50, "expDT"))
			}
			return s
		}
		push := func(en *vfC23Entry, ok bool) {
			if ok {
				en.Arrival = len(admitted)
				admitted = append(admitted, en)
				byHash[string(en.tx.Hash())] = en
			}
		}
		for i, n := 0, 3+intn(12, "ntx"); i < n; i++ {
			en := &vfC23Entry{ID: fmt.Sprintf("e%d", i)}
			switch k := intn(20, "kind"); {
			case k < 8:
				en.Specs = []vfTxSpec{newSpec(false)}
			case k < 17:
				en.Specs = []vfTxSpec{newSpec(true)}
			default:
				en.Specs = []vfTxSpec{newSpec(k == 19), newSpec(intn(3, "memberEth") == 0)}
				en.Specs[1].Nonce += 1 << 20 // member nonces of eth senders are not subject to the nonce rule
			}
			if len(en.Specs) == 1 {
				en.tx = vfBuildTx(e.cfg, en.Specs[0])
			} else {
				en.tx, _ = vfBuildGroup(e.cfg, en.Specs)
			}
			if byHash[string(en.tx.Hash())] != nil {
				continue
			}
			ok, _ := e.submit(en.tx)
			push(en, ok)
		}
		// ---- a same-nonce duplicate of a pooled eth transaction, re-pushed by a block rollback
		if intn(4, "reorgDup") == 0 {
			var eths []*vfC23Entry
			for _, en := range admitted {
				if _, eth := en.ethSender(); eth && len(en.Specs) == 1 {
					eths = append(eths, en)
				}
			}
			if len(eths) > 0 {
				src := eths[intn(len(eths), "dupOf")]
				sp := src.Specs[0]
				sp.To, sp.Fee, sp.Expire = (sp.To+1)%vfNumSenders, sp.Fee+1, 0
				dup := &vfC23Entry{ID: "dup-of-" + src.ID, Specs: []vfTxSpec{sp}, tx: vfBuildTx(e.cfg, sp)}
				blk := &types.Block{Height: h0 + 1, BlockTime: t0, Txs: []*types.Transaction{dup.tx}}
				e.chain.setHeader(h0+1, t0)
				e.cast(types.EventAddBlock, &types.BlockDetail{Block: blk})
				e.chain.setHeader(h0, t0)
				e.cast(types.EventDelBlock, &types.BlockDetail{Block: blk})
				push(dup, e.mem.cache.Exist(string(dup.tx.Hash())))
				lib.Class("reorg_duplicate_nonce_pushed")
			}
		}
		// ---- time passes: entries age, nonces are consumed on chain, the header moves on
		c := &vfC23Case{Height: h0 + int64(intn(6, "dh")), Time: t0 + int64(intn(60, "dt")), CurNonce: map[string]int64{}}
		for _, en := range admitted {
			if !e.mem.cache.Exist(string(en.tx.Hash())) {
				continue // swept by the rollback block's own sweep
			}
			if intn(6, "aged") == 0 {
				en.Aged = true
				e.age(en.tx.Hash())
			}
			c.Pool = append(c.Pool, en)
		}
		for i := 4; i <= 6; i++ {
			n := c0 + int64(intn(4, "curNonce"))
			if intn(2, "curNonceOnPooled") == 0 { // half of the time the current nonce is one a pooled transaction carries
				for _, en := range c.Pool {
					if s, eth := en.ethSender(); eth && s == i {
						n = en.Specs[0].Nonce
						break
					}
				}
			}
			c.CurNonce[fmt.Sprint(i)] = n
			e.chain.mu.Lock()
			e.chain.nonce[vfSenders[i].addr] = n
			e.chain.mu.Unlock()
		}
		e.chain.setHeader(c.Height, c.Time)
		e.mem.setHeader(&types.Header{Height: c.Height, BlockTime: c.Time})

		// ---- class of the pool (non-triviality rule of C23)
		nExpired, gapSender, ethSenders := 0, false, map[int]map[int64]bool{}
		for _, en := range c.Pool {
			if en.expired(c.Height, c.Time) {
				nExpired++
			}
			if s, eth := en.ethSender(); eth {
				if ethSenders[s] == nil {
					ethSenders[s] = map[int64]bool{}
				}
				ethSenders[s][en.Specs[0].Nonce] = true
			}
		}
		for s, ns := range ethSenders {
			cur, max := c.CurNonce[fmt.Sprint(s)], int64(-1)
			for n := range ns {
				if n > max {
					max = n
				}
			}
			for n := cur; n < max; n++ {
				if !ns[n] {
					gapSender = true
				}
			}
		}

		// ---- queries
		for q, nq := 0, 1+intn(4, "nq"); q < nq; q++ {
			qu := vfC23Query{Count: int64(1 + intn(len(c.Pool)+3, "count"))}
			req := &types.TxHashList{Count: qu.Count}
			excl := map[string]bool{}
			hitPool := false
			for i, n := 0, intn(5, "nexcl"); i < n; i++ {
				if len(c.Pool) > 0 && intn(4, "exclAbsent") > 0 {
					en := c.Pool[intn(len(c.Pool), "exclIdx")]
					qu.Exclude = append(qu.Exclude, en.ID)
					req.Hashes = append(req.Hashes, en.tx.Hash())
					hitPool = true
				} else {
					qu.Exclude = append(qu.Exclude, fmt.Sprintf("absent-%d", i))
					req.Hashes = append(req.Hashes, types.Encode(&types.Int64{Data: int64(i + 1)}))
				}
				excl[string(req.Hashes[len(req.Hashes)-1])] = true
			}
			c.Queries = append(c.Queries, qu)
			lib.Eval()
			start := time.Now()
			reply, ok := e.call(types.EventTxList, req).GetData().(*types.ReplyTxList)
			if time.Since(start) > 1500*time.Millisecond {
				// the pool waits at most 2 s for each nonce answer and then assumes 0: a stalled machine must not become a verdict
				if slow++; slow > 20 {
					lib.Inconclusive("EventTxList repeatedly took longer than 1.5 s: machine too loaded for the nonce round trips")
				}
				lib.Class("query_slow_skipped")
				continue
			}
			if !ok {
				lib.Inconclusive("EventTxList reply has unexpected type")
			}
			fail := func(format string, a ...interface{}) {
				lib.Violation(t, "C23", "TestPropProducerLists", c, "query %d %+v: %s", q, qu, fmt.Sprintf(format, a...))
			}
			got := reply.Txs
			if int64(len(got)) > qu.Count {
				fail("%d transactions returned, %d requested", len(got), qu.Count)
			}
			seen := map[string]bool{}
			lastPlain := -1
			next := map[int]int64{}
			for _, tx := range got {
				h := string(tx.Hash())
				en := byHash[h]
				if en == nil || !e.mem.cache.Exist(h) {
					fail("returned transaction %s is not a pooled transaction", vfHex(tx.Hash()))
				}
				if seen[h] {
					fail("%s returned twice", en.ID)
				}
				seen[h] = true
				if excl[h] {
					fail("%s returned although the caller excluded its hash", en.ID)
				}
				if en.expired(c.Height, c.Time) {
					fail("%s returned although it is expired for block %d / time %d (aged=%v, specs %+v)", en.ID, c.Height+1, c.Time, en.Aged, en.Specs)
				}
				if s, eth := en.ethSender(); eth {
					// each eth-signed sender's transactions: consecutive nonces starting at the sender's current nonce
					want, started := next[s]
					if !started {
						want = c.CurNonce[fmt.Sprint(s)]
					}
					if en.Specs[0].Nonce != want {
						fail("eth sender %d: %s has nonce %d where %d is due (current nonce %d)", s, en.ID, en.Specs[0].Nonce, want, c.CurNonce[fmt.Sprint(s)])
					}
					next[s] = want + 1
				} else {
					// transactions that are not eth-signed keep their arrival order
					if en.Arrival < lastPlain {
						fail("%s (arrival %d) returned after a later arrival (%d)", en.ID, en.Arrival, lastPlain)
					}
					lastPlain = en.Arrival
				}
			}
			if len(got) > 0 {
				lib.Class("list_nonempty")
			}
			if len(next) > 0 {
				lib.Class("list_has_eth_sender")
			}
			if hitPool {
				lib.Class("query_excludes_pooled_tx")
			}
			if nExpired > 0 && hitPool && len(ethSenders) >= 2 && gapSender {
				lib.NonTrivialCase(map[string]interface{}{"height": c.Height, "time": c.Time, "curNonce": c.CurNonce, "pool": c.Pool, "query": qu})
			}
		}
		if nExpired > 0 {
			lib.Class("pool_has_expired")
		}
		if len(ethSenders) >= 2 {
			lib.Class("pool_has_2+_eth_senders")
		}
		if gapSender {
			lib.Class("pool_has_nonce_gap")
		}
	})
}
