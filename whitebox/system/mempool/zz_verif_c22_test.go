package mempool

// C22: a submitted transaction or group enters the pool only if every admission condition holds.
//
// Each case is built by construction: a pool / chain state S and a transaction (or group) T that satisfies every
// clause of the property in S, plus a drawn set V of clauses that are then violated, one transformation per clause,
// leaving the other clauses satisfied. Oracle (derived from the property text, not from check.go): V non-empty =>
// the submission must not enter the pool (reply not ok, and no new hash in the pool). Which error comes back is
// not checked. The converse is not part of the property; it is only used as a control that the generator is sound
// (an unviolated T that is rejected makes the run inconclusive, never a violation).

import (
	"fmt"
	"sort"
	"strings"
	"sync"
	"testing"
	"time"

	"github.com/33cn/chain33/queue"
	"github.com/33cn/chain33/types"
	"pgregory.net/rapid"
	"verifharness/lib"
)

const (
	vfFindingWrapper   = "C22-group-wrapper-unverified"
	vfFindingExpHdr    = "C22-group-expiry-skipped-when-header-parses"
	vfFindingNonceRace = "C22-concurrent-same-nonce-both-pooled"
)

// clause names (the property's conjunction, one entry per way of violating it that the generator knows)
const (
	clSig          = "signature"        // member i: signature bytes tampered / made with another key / absent
	clWrapper      = "wrapper"          // group only: the wrapper's own signature does not verify (members intact)
	clInPool       = "already_in_pool"  // the very same submission is pooled already
	clOnChain      = "already_on_chain" // the chain reports member i as packed
	clExpHeight    = "expired_height"   // member i: 0 < Expire <= next height
	clExpTime      = "expired_time"     // member i: 1e9 < Expire <= last block time
	clFeeLow       = "fee_below_min"    // fee < members x minTxFeeRate (all generated members are < 1 kB)
	clFeeTier      = "fee_below_tier"   // level fee enabled, pool > 200 kB: fee < members x 10 x minTxFeeRate
	clBadTo        = "invalid_to"       // member i: recipient string is not an address
	clAtLimit      = "sender_at_limit"  // the sender already has maxTxNumPerAccount pooled transactions
	clBlFrom       = "blacklist_from"   // member i signed by a blacklisted account
	clBlTo         = "blacklist_to"     // member i sends to a blacklisted account
	clBlEvmCall    = "blacklist_evm_contract"
	clBlEvmPara    = "blacklist_evm_para"
	clNonceLow     = "eth_nonce_low"     // eth-signed sender: nonce < current nonce
	clNoncePending = "eth_nonce_pending" // eth-signed sender: a pooled transaction of the sender has this nonce
)

type vfViolation struct {
	Clause  string `json:"clause"`
	Member  int    `json:"member"`
	Variant int    `json:"variant"`
}

type vfC22Case struct {
	Height     int64         `json:"height"`
	BlockTime  int64         `json:"blockTime"`
	PerAcc     int64         `json:"perAcc"`
	Blacklist  bool          `json:"blacklist"` // address-book entries 3, 6, 8, 9 are blacklisted
	LevelFee   bool          `json:"levelFee"`  // tiered fee on, pool pre-filled with 3 x 90 kB so that the 10x tier applies
	CurNonce   int64         `json:"curNonce"`  // current nonce of every eth sender
	Prefill    []vfTxSpec    `json:"prefill"`
	Tx         []vfTxSpec    `json:"tx"` // one = plain transaction, more = group
	Grind      bool          `json:"grind,omitempty"`
	Violations []vfViolation `json:"violations"`
}

var vfBlocked = []int{3, 6, 8, 9}

// vfGenC22 draws a case. Unviolated members use senders 0,1,2 (secp256k1) and 4,5 (eth) and recipients 0,1,2,4,5.
func vfGenC22(t *rapid.T) *vfC22Case {
	pick := func(xs []int, label string) int { return xs[rapid.IntRange(0, len(xs)-1).Draw(t, label)] }
	c := &vfC22Case{
		Height:    int64(rapid.IntRange(5, 300).Draw(t, "height")),
		BlockTime: vfBaseTime + int64(rapid.IntRange(0, 100000).Draw(t, "dtime")),
		PerAcc:    int64(rapid.IntRange(3, 5).Draw(t, "perAcc")),
		Blacklist: rapid.IntRange(0, 9).Draw(t, "blacklist") < 7,
		LevelFee:  rapid.IntRange(0, 9).Draw(t, "levelFee") < 2,
		CurNonce:  int64(rapid.IntRange(0, 5).Draw(t, "curNonce")),
	}
	okSenders, okTo := []int{0, 1, 2, 4, 5}, []int{0, 1, 2, 4, 5}
	nonce := int64(1000)
	member := func(head bool) vfTxSpec {
		nonce++
		s := vfTxSpec{Sender: pick(okSenders, "sender"), To: pick(okTo, "to"), Nonce: nonce, Evm: pick([]int{0, 0, 0, 1, 2}, "evm")}
		if vfSenders[s.Sender].eth && head {
			s.Nonce = c.CurNonce + int64(rapid.IntRange(0, 3).Draw(t, "nonceGap")) // at or above the current nonce, gaps allowed
		}
		switch rapid.IntRange(0, 5).Draw(t, "expire") { // unexpired: 0, or beyond the next height / the last block time
		case 0:
			s.Expire = c.Height + 2 + int64(rapid.IntRange(0, 3).Draw(t, "expDH"))
		case 1:
			s.Expire = c.BlockTime + 1 + int64(rapid.IntRange(0, 100).Draw(t, "expDT"))
		}
		return s
	}
	n := pick([]int{1, 1, 1, 2, 3}, "members")
	for i := 0; i < n; i++ {
		c.Tx = append(c.Tx, member(i == 0))
	}
	c.Grind = n > 1 && rapid.IntRange(0, 3).Draw(t, "grind") == 0
	// other pooled transactions: at most one per sender, so nobody is near the per-sender limit (PerAcc >= 3)
	for _, s := range okSenders {
		if rapid.Bool().Draw(t, "prefill") {
			nonce++
			sp := vfTxSpec{Sender: s, To: pick(okTo, "pto"), Nonce: nonce}
			if vfSenders[s].eth {
				sp.Nonce = c.CurNonce + 10 + int64(rapid.IntRange(0, 3).Draw(t, "pnonce")) // never collides with T's nonce
			}
			c.Prefill = append(c.Prefill, sp)
		}
	}
	// the violation set: mostly one clause, sometimes none (control), two or three
	headEth := vfSenders[c.Tx[0].Sender].eth
	var avail []string
	avail = append(avail, clSig, clInPool, clOnChain, clExpHeight, clExpTime, clFeeLow, clBadTo, clAtLimit)
	if n > 1 {
		avail = append(avail, clWrapper, clWrapper)
	}
	if c.LevelFee {
		avail = append(avail, clFeeTier, clFeeTier)
	}
	if c.Blacklist {
		avail = append(avail, clBlFrom, clBlTo, clBlEvmCall, clBlEvmPara)
	}
	if headEth {
		avail = append(avail, clNoncePending, clNoncePending)
		if c.CurNonce > 0 {
			avail = append(avail, clNonceLow, clNonceLow)
		}
	}
	k := pick([]int{0, 1, 1, 1, 1, 1, 1, 2, 2, 3}, "nviol")
	used := map[string]bool{}
	for len(c.Violations) < k {
		v := vfViolation{Clause: avail[rapid.IntRange(0, len(avail)-1).Draw(t, "clause")], Variant: rapid.IntRange(0, 2).Draw(t, "variant")}
		if n > 1 { // per-member clauses: prefer a member other than the head
			v.Member = pick([]int{0, 1, 1, n - 1}, "vmember")
		}
		switch v.Clause { // clauses about the submission as a whole, or about its (head) sender
		case clWrapper, clInPool, clFeeLow, clFeeTier, clAtLimit, clNonceLow, clNoncePending:
			v.Member = 0
		}
		// one transformation per field of a member; in_pool needs T itself to be admissible, so it only combines with
		// violations that are made by changing the state after T was pooled
		group := map[string]string{clExpHeight: "expire", clExpTime: "expire", clFeeLow: "fee", clFeeTier: "fee", clBadTo: "to", clBlTo: "to",
			clBlEvmCall: "to", clBlEvmPara: "to", clBlFrom: "from", clSig: "sig", clWrapper: "wrap", clNonceLow: "nonce", clNoncePending: "nonce"}[v.Clause]
		key := fmt.Sprintf("%s/%d", group, v.Member)
		if group == "" {
			key = v.Clause
		}
		stateOnly := v.Clause == clInPool || v.Clause == clOnChain || v.Clause == clAtLimit
		// a blacklisted head sender can have nothing pooled, so it cannot also be at its limit or have a pending nonce
		needsPooledSender := v.Clause == clAtLimit || v.Clause == clNoncePending
		if used[key] || used[v.Clause] || (used[clInPool] && !stateOnly) || (v.Clause == clInPool && len(c.Violations) > 0) ||
			(needsPooledSender && used["from/0"]) || (key == "from/0" && (used[clAtLimit] || used[clNoncePending])) {
			k-- // conflicting draw: settle for fewer violations
			continue
		}
		used[key], used[v.Clause] = true, true
		c.Violations = append(c.Violations, v)
	}
	for i := range c.Violations { // the re-wrapped duplicate needs T pooled first, so it is only drawn on its own
		if c.Violations[i].Clause == clWrapper && c.Violations[i].Variant == 2 && len(c.Violations) > 1 {
			c.Violations[i].Variant = 0
		}
	}
	sort.Slice(c.Violations, func(i, j int) bool { return c.Violations[i].Clause < c.Violations[j].Clause })
	return c
}

var vfSlowC22 int

type vfC22Outcome struct {
	skipped      bool // the submission took so long that the pool's 2 s nonce timeout may have fired
	entered      bool
	msg          string
	headerParses bool // group only: the 32-byte group header is, by chance or by grinding, well-formed protobuf
}

// vfRunC22 builds the state and the submission of a case, submits, and applies the oracle. It returns whether the
// violating submission entered the pool; fixture problems end the process as inconclusive.
func vfRunC22(c *vfC22Case) vfC22Outcome {
	o := vfOpts{cap: 100, perAcc: c.PerAcc, maxLast: 10, levelFee: c.LevelFee, height: c.Height, btime: c.BlockTime}
	if c.Blacklist {
		for _, i := range vfBlocked {
			o.blocked = append(o.blocked, vfSenders[i].addr)
		}
	}
	e := vfNewEnv(o)
	defer e.close()
	for i := 4; i <= 6; i++ {
		e.chain.nonce[vfSenders[i].addr] = c.CurNonce
	}
	mustAdmit := func(tx *types.Transaction, what string) {
		if ok, msg := e.submit(tx); !ok {
			lib.Inconclusive("C22 fixture: %s was rejected: %s (case %+v)", what, msg, *c)
		}
	}
	has := map[string]*vfViolation{}
	for i := range c.Violations {
		has[c.Violations[i].Clause] = &c.Violations[i]
	}
	rate := e.cfg.GetMinTxFeeRate()
	if c.LevelFee { // three 90 kB transactions of the filler account: 270 kB > MaxBlockSize/100, so the next one pays 10x
		for i := 0; i < 3; i++ {
			mustAdmit(vfBuildTx(e.cfg, vfTxSpec{Sender: vfFiller, Nonce: int64(i + 1), Big: 90000, Fee: 95 * rate}), "level-fee filler")
		}
		rate *= 10
	}
	for _, s := range c.Prefill {
		s.Fee = 10*rate + int64(s.Sender) // the hash does not cover the signer: keep equal-nonce transactions of two senders distinct
		mustAdmit(vfBuildTx(e.cfg, s), "prefill transaction")
	}

	// ---- the valid submission T and its violated twin T'
	specs := append([]vfTxSpec(nil), c.Tx...)
	n := len(specs)
	valid := vfC22Build(e, specs, int64(n)*rate, c.Grind, nil)
	bad := append([]vfTxSpec(nil), specs...)
	badFee := int64(n) * rate
	for _, v := range c.Violations {
		m := &bad[v.Member]
		switch v.Clause {
		case clExpHeight: // expired for the next block: 0 < Expire <= Height+1
			m.Expire = []int64{c.Height + 1, c.Height, 1}[v.Variant]
		case clExpTime: // expired by time: 1e9 < Expire <= BlockTime
			m.Expire = c.BlockTime - []int64{0, 1, 100000}[v.Variant]
		case clFeeLow: // all members are < 1 kB, so the minimum is members x minTxFeeRate (level fee or not)
			badFee = []int64{int64(n)*e.cfg.GetMinTxFeeRate() - 1, 0, 1}[v.Variant]
		case clFeeTier: // enough for the base rate, not for the 10x tier
			badFee = []int64{int64(n) * e.cfg.GetMinTxFeeRate(), int64(n)*rate - 1, int64(n) * rate / 2}[v.Variant]
		case clBadTo:
			m.BadTo, m.Evm = []string{"notaddress", "1Q1pE5vPGEEMqRcVRMbtBK842Y6Pzo6nKx", "0x33e0f539e31b35170faaa062af703b76a8282b"}[v.Variant], 0
		case clBlFrom:
			if vfSenders[m.Sender].eth {
				m.Sender = 6
			} else {
				m.Sender = 3
			}
		case clBlTo:
			m.To, m.Evm = []int{3, 6, 8}[v.Variant], 0
		case clBlEvmCall:
			m.To, m.Evm = []int{8, 9, 3}[v.Variant], 1
		case clBlEvmPara:
			m.To, m.Evm = []int{8, 6, 9}[v.Variant], 2
		case clNonceLow:
			m.Nonce = []int64{c.CurNonce - 1, 0, c.CurNonce - 1}[v.Variant]
		}
	}
	tweaked := false // does T' differ from T in a signed field or a member signature?
	for _, v := range c.Violations {
		switch v.Clause {
		case clInPool, clOnChain, clAtLimit, clNoncePending, clWrapper:
		default:
			tweaked = true
		}
	}
	// T itself is pooled first for "already in pool" and for the re-wrapped duplicate of an otherwise valid group
	prePool := has[clInPool] != nil || (has[clWrapper] != nil && has[clWrapper].Variant == 2 && !tweaked)
	if has[clNoncePending] != nil { // another pooled transaction of the sender carries the nonce T' will carry
		p := bad[0]
		p.To, p.Evm, p.Expire, p.BadTo, p.Fee = (specs[0].To+1)%3, 0, 0, "", 10*rate
		mustAdmit(vfBuildTx(e.cfg, p), "pending same-nonce transaction")
	}
	if has[clAtLimit] != nil { // fill the (head) sender up to the limit with unrelated transactions
		head := bad[0].Sender
		have := int64(0)
		for _, it := range e.entries() {
			if it.Value.From() == vfSenders[head].addr {
				have++
			}
		}
		if prePool {
			have++ // T itself will be pooled below
		}
		for j := int64(0); have < c.PerAcc; j, have = j+1, have+1 {
			mustAdmit(vfBuildTx(e.cfg, vfTxSpec{Sender: head, To: (specs[0].To + 1) % 3, Nonce: c.CurNonce + 100 + j, Fee: 10 * rate}), "sender-limit filler")
		}
	}
	submission := valid
	var tamper func(g *types.Transactions)
	if v := has[clSig]; v != nil {
		tamper = func(g *types.Transactions) { vfBreakSignature(g.Txs[v.Member], bad[v.Member].Sender, v.Variant) }
	}
	if tweaked {
		submission = vfC22Build(e, bad, badFee, c.Grind, tamper)
	}
	if prePool {
		mustAdmit(valid.tx, "first submission of T")
	}
	if v := has[clWrapper]; v != nil {
		w := types.CloneTx(submission.tx) // CloneTx shares the Signature object with the valid twin: copy it deeply
		w.Signature = &types.Signature{Ty: w.Signature.Ty, Pubkey: append([]byte(nil), w.Signature.Pubkey...), Signature: append([]byte(nil), w.Signature.Signature...)}
		switch v.Variant {
		case 0: // wrapper signature bytes tampered
			if len(w.Signature.Signature) > 9 {
				w.Signature.Signature[9] ^= 0x40
			} else {
				w.Signature.Signature = []byte{1}
			}
		case 1: // wrapper claims another account's key
			w.Signature.Pubkey = vfSenders[(bad[0].Sender+1)%3].priv.PubKey().Bytes()
			w.Signature.Ty = vfSenders[(bad[0].Sender+1)%3].ty
		case 2: // the pooled group once more under a re-labelled wrapper (so the wrapper hash differs)
			w.Nonce += 7
		}
		submission = &vfBuilt{tx: w, members: submission.members}
	}
	if v := has[clOnChain]; v != nil {
		e.chain.mu.Lock()
		e.chain.onChain[string(submission.members[v.Member].Hash())] = true
		e.chain.mu.Unlock()
	}
	for _, mt := range submission.members {
		if types.Size(mt) > 900 {
			lib.Inconclusive("C22 fixture: generated member is %d bytes, the fee oracle assumes < 1 kB", types.Size(mt))
		}
	}

	before := vfHashSet(e.entries())
	start := time.Now()
	ok, msg := e.submit(submission.tx)
	if time.Since(start) > 1500*time.Millisecond {
		// the pool waits at most 2 s for the sender's current nonce and then assumes 0: on a stalled machine the
		// nonce clauses cannot be judged, and a timing accident must never become a verdict
		if vfSlowC22++; vfSlowC22 > 20 {
			lib.Inconclusive("EventTx repeatedly took longer than 1.5 s: machine too loaded for the nonce round trip")
		}
		return vfC22Outcome{skipped: true}
	}
	entered := ok
	for h := range vfHashSet(e.entries()) {
		if !before[h] {
			entered = true
		}
	}
	if len(c.Violations) == 0 && !entered {
		lib.Inconclusive("C22 control: an unviolated submission was rejected: %s (case %+v)", msg, *c)
	}
	stateMade := has[clInPool] != nil || has[clOnChain] != nil || has[clAtLimit] != nil || has[clNoncePending] != nil ||
		(has[clWrapper] != nil && has[clWrapper].Variant == 2)
	if len(c.Violations) > 0 && !entered && !stateMade {
		// control for transaction-made violations: the untransformed T must be admissible in this very state, so the
		// rejection above is due to the violated clause(s) and not to an accident of the fixture
		if ok2, msg2 := e.submit(valid.tx); !ok2 {
			lib.Inconclusive("C22 control: the unviolated twin was rejected: %s (case %+v)", msg2, *c)
		}
		lib.Class("control_twin_admitted")
	}
	out := vfC22Outcome{entered: entered, msg: msg}
	if len(submission.members) > 1 {
		var probe types.Transactions
		out.headerParses = types.Decode(submission.members[0].Header, &probe) == nil
	}
	return out
}

type vfBuilt struct {
	tx      *types.Transaction
	members []*types.Transaction
}

func vfC22Build(e *vfEnv, specs []vfTxSpec, fee int64, grind bool, tamper func(*types.Transactions)) *vfBuilt {
	var txs []*types.Transaction
	for _, s := range specs {
		txs = append(txs, vfUnsigned(e.cfg, s))
	}
	if len(txs) == 1 {
		txs[0].Fee = fee
		txs[0].Sign(vfSenders[specs[0].Sender].ty, vfSenders[specs[0].Sender].priv)
		g := &types.Transactions{Txs: txs}
		if tamper != nil {
			tamper(g)
		}
		return &vfBuilt{tx: txs[0], members: txs}
	}
	g := vfGroupOf(txs, fee, grind)
	for i, s := range specs {
		txs[i].Sign(vfSenders[s.Sender].ty, vfSenders[s.Sender].priv)
	}
	if tamper != nil {
		tamper(g)
	}
	return &vfBuilt{tx: g.Tx(), members: txs}
}

// vfBreakSignature makes the signature of tx invalid without touching any signed field.
func vfBreakSignature(tx *types.Transaction, sender, variant int) {
	switch variant {
	case 0: // one bit of r flipped (byte 9 lies inside r for both the DER and the 65-byte eth encoding)
		tx.Signature.Signature[9] ^= 0x40
	case 1: // signed with another account's key, claiming the original public key
		pub := tx.Signature.Pubkey
		other := vfSenders[(sender+1)%3]
		if vfSenders[sender].eth {
			other = vfSenders[4+(sender-4+1)%3]
		}
		tx.Sign(vfSenders[sender].ty, other.priv)
		tx.Signature.Pubkey = pub
	case 2: // signature bytes absent (type and public key kept)
		tx.Signature.Signature = nil
	}
}

func (c *vfC22Case) classes() (shape string, single bool) {
	shape = "plain"
	if len(c.Tx) > 1 {
		shape = "group"
	}
	if vfSenders[c.Tx[0].Sender].eth {
		shape += "_eth_head"
	}
	return shape, len(c.Violations) == 1
}

// vfKnownC22 reports whether an admitted violating case is fully explained by listed known findings: every violated
// clause must be one that a listed finding lets through, otherwise the case is a new violation.
//   - wrapper finding: the wrapper clause itself, plus the two eth nonce clauses, which the code evaluates on the
//     unverified wrapper's own signature type and nonce;
//   - header finding: an expiry clause of a member of a group whose 32-byte header parses as protobuf (by grinding,
//     or by chance: about 1 in 500 hashes does).
func vfKnownC22(c *vfC22Case, out vfC22Outcome) string {
	id, wrapper := "", false
	for _, v := range c.Violations {
		wrapper = wrapper || v.Clause == clWrapper
	}
	for _, v := range c.Violations {
		switch {
		case v.Clause == clWrapper && lib.Known(vfFindingWrapper):
			id = vfFindingWrapper
		case (v.Clause == clNonceLow || v.Clause == clNoncePending) && wrapper && lib.Known(vfFindingWrapper):
		case (v.Clause == clExpHeight || v.Clause == clExpTime) && out.headerParses && lib.Known(vfFindingExpHdr):
			if id == "" {
				id = vfFindingExpHdr
			}
		default:
			return ""
		}
	}
	return id
}

func TestPropAdmission(t *testing.T) {
	defer lib.Flush()
	vfInitSenders()
	rapid.Check(t, func(t *rapid.T) {
		c := vfGenC22(t)
		lib.Eval()
		out := vfRunC22(c)
		if out.skipped {
			lib.Class("slow_submission_skipped")
			return
		}
		shape, single := c.classes()
		lib.Class("shape_" + shape)
		if out.headerParses {
			lib.Class("group_header_parses_as_protobuf")
		}
		if len(c.Violations) == 0 {
			lib.Class("control_unviolated_admitted")
			return
		}
		for _, v := range c.Violations {
			lib.Class("violated_" + v.Clause)
			if len(c.Tx) > 1 && v.Member > 0 {
				lib.Class("violation_in_non_head_member")
			}
		}
		if out.entered {
			if id := vfKnownC22(c, out); id != "" {
				lib.ExcludedKnown(id)
				return
			}
			lib.Violation(t, "C22", "TestPropAdmission", c, "a submission violating %v entered the pool (reply %q)", c.Violations, out.msg)
		}
		lib.Class("rejected:" + out.msg)
		if single {
			lib.NonTrivialCase(c)
		}
	})
}

// ---------------------------------------------------------------- pinned cases of the genuine defects found

// Minimal case: a valid two-member group (both members correctly signed) whose wrapper transaction carries a
// signature that does not verify. The property demands rejection ("every signature verifies").
func TestKnown_C22GroupWrapperUnverified(t *testing.T) {
	defer lib.Flush()
	vfInitSenders()
	for variant := 0; variant <= 1; variant++ {
		c := &vfC22Case{Height: 10, BlockTime: vfBaseTime, PerAcc: 3, Tx: []vfTxSpec{{Sender: 0, To: 1, Nonce: 1}, {Sender: 1, To: 0, Nonce: 2}},
			Violations: []vfViolation{{Clause: clWrapper, Variant: variant}}}
		if out := vfRunC22(c); out.entered && !out.skipped {
			lib.KnownOrViolation(t, "C22", "TestKnown_C22GroupWrapperUnverified", vfFindingWrapper, c,
				"a group whose wrapper transaction has an invalid signature (or claims another account's public key) is admitted: only the members inside Header are verified, the wrapper that is pooled and indexed by its From() never is")
		}
	}
}

// Minimal case: a two-member group whose second member is expired for the next block, with the last member's nonce
// chosen so that the 32-byte group header happens to be well-formed protobuf.
func TestKnown_C22GroupExpirySkippedWhenHeaderParses(t *testing.T) {
	defer lib.Flush()
	vfInitSenders()
	c := &vfC22Case{Height: 10, BlockTime: vfBaseTime, PerAcc: 3, Grind: true, Tx: []vfTxSpec{{Sender: 0, To: 1, Nonce: 1}, {Sender: 1, To: 0, Nonce: 2}},
		Violations: []vfViolation{{Clause: clExpHeight, Member: 1, Variant: 1}}}
	if out := vfRunC22(c); out.entered {
		lib.KnownOrViolation(t, "C22", "TestKnown_C22GroupExpirySkippedWhenHeaderParses", vfFindingExpHdr, c,
			"an expired group member is admitted when the group's 32-byte header parses as protobuf: checkTx -> IsExpire calls GetTxGroup on the member, which decodes that hash as an (empty) group and skips the member's own expiry")
	}
}

// ---------------------------------------------------------------- concurrent bursts: admission must not depend on a serial pipeline

// The admission conditions that are evaluated on the pool's state (sender below its limit, not already pooled, eth
// nonce not pending; also the pool's capacity) are checked early, in the event loop, and the transaction is pushed
// much later, at the end of the asynchronous pipeline. A burst case pre-fills senders to just below their limit
// (serially), then submits several transactions per sender WITHOUT waiting for replies, from one goroutine per
// sender. In gated cases the fake blockchain peer holds its answers until every submission that can pass the early
// checks is waiting in the pipeline, so the overlap is scripted, not a matter of timing; in free cases the scheduler
// decides. Oracle at quiescence (= every reply received), from the property text:
//
//	(a) a submission whose reply is an error did not enter: its hash is not pooled (unless another submission of the
//	    same hash was answered ok or it was pre-filled), and a hash is answered ok at most once;
//	(b) per sender the pooled transactions are <= the limit and TxNumOfAccount says the same number; pool <= capacity;
//	    the pooled transactions of an eth-signed sender carry pairwise distinct nonces;
//	(c) a submission whose reply is ok is pooled (the case has no removals).
type vfBurstTx struct {
	Spec  []vfTxSpec `json:"spec"` // one = plain, two = group
	Twice bool       `json:"twice,omitempty"`
}

type vfBurstCase struct {
	Cap     int64                  `json:"cap"`
	PerAcc  int64                  `json:"perAcc"`
	Gated   bool                   `json:"gated"`
	Prefill map[string]int         `json:"prefill"` // sender index -> serially pooled transactions
	Burst   map[string][]vfBurstTx `json:"burst"`   // sender index -> what that sender's goroutine submits
}

func TestPropAdmissionBurst(t *testing.T) {
	defer lib.Flush()
	vfInitSenders()
	rapid.Check(t, func(t *rapid.T) {
		lib.Eval()
		intn := func(n int, label string) int { return rapid.IntRange(0, n-1).Draw(t, label) }
		c := &vfBurstCase{PerAcc: int64(1 + intn(3, "perAcc")), Gated: intn(3, "gated") > 0, Prefill: map[string]int{}, Burst: map[string][]vfBurstTx{}}
		senders := []int{0, 1, 2, 4, 5}[:2+intn(4, "nsenders")]
		uniq, total := int64(0), 0
		ethNonce := map[int]int64{}
		spec := func(s int, compete bool) vfTxSpec {
			uniq++
			sp := vfTxSpec{Sender: s, To: intn(3, "to"), Nonce: 5000 + uniq, Fee: vfFee + uniq}
			if vfSenders[s].eth { // distinct consecutive nonces, now and then the previous one again (a competing transaction)
				again := ethNonce[s] > 0 && compete && intn(4, "sameNonce") == 0
				if again && lib.Known(vfFindingNonceRace) {
					// known finding: two same-nonce transactions of one sender in the pipeline at once are both pooled;
					// the class is excluded by construction so that the burst search goes on behind it
					lib.ExcludedKnown(vfFindingNonceRace)
					again = false
				}
				if !again {
					ethNonce[s]++
				}
				sp.Nonce = ethNonce[s] - 1
			}
			return sp
		}
		for _, s := range senders {
			c.Prefill[fmt.Sprint(s)] = int(c.PerAcc) - intn(3, "below") // at the limit, one below, two below
			if c.Prefill[fmt.Sprint(s)] < 0 {
				c.Prefill[fmt.Sprint(s)] = 0
			}
			total += c.Prefill[fmt.Sprint(s)]
		}
		nburst := 0
		for _, s := range senders {
			for i, n := 0, 1+intn(4, "burst"); i < n; i++ {
				b := vfBurstTx{Spec: []vfTxSpec{spec(s, true)}, Twice: intn(8, "twice") == 0}
				if !vfSenders[s].eth && intn(8, "group") == 0 {
					b.Spec = append(b.Spec, spec(senders[intn(len(senders), "member")], false))
					b.Spec[1].Nonce += 1 << 20
				}
				c.Burst[fmt.Sprint(s)] = append(c.Burst[fmt.Sprint(s)], b)
				nburst++
			}
		}
		c.Cap = int64(total + nburst + 5)
		if intn(3, "nearCapacity") == 0 { // room for only one or two more
			c.Cap = int64(total + 1 + intn(2, "room"))
		}

		e := vfNewEnv(vfOpts{cap: c.Cap, perAcc: c.PerAcc, maxLast: 10})
		defer e.close()
		prefilled := map[string]bool{}
		for _, s := range senders {
			for i := 0; i < c.Prefill[fmt.Sprint(s)]; i++ {
				tx := vfBuildTx(e.cfg, spec(s, false))
				if ok, msg := e.submit(tx); !ok {
					lib.Inconclusive("C22 burst fixture: prefill rejected: %s (case %+v)", msg, *c)
				}
				prefilled[string(tx.Hash())] = true
			}
		}
		// build the burst and count the submissions that will pass the early per-sender test (every member's sender
		// below the limit as pre-filled): exactly those reach the duplicate check, where the gate holds them
		type sub struct {
			tx       *types.Transaction
			ok, done bool
			msg      string
		}
		plan := map[int][]*sub{}
		reach, reachEth := 0, 0
		for _, s := range senders {
			for _, b := range c.Burst[fmt.Sprint(s)] {
				var tx *types.Transaction
				if len(b.Spec) == 1 {
					tx = vfBuildTx(e.cfg, b.Spec[0])
				} else {
					tx, _ = vfBuildGroup(e.cfg, b.Spec)
				}
				passes := true
				for _, m := range b.Spec {
					if int64(c.Prefill[fmt.Sprint(m.Sender)]) >= c.PerAcc {
						passes = false
					}
				}
				for i := 0; i < 1+map[bool]int{true: 1}[b.Twice]; i++ {
					plan[s] = append(plan[s], &sub{tx: tx})
					if passes {
						reach++
						if vfSenders[s].eth {
							reachEth++
						}
					}
				}
			}
		}
		if c.Gated && reach > 1 {
			if reach > processNum { // the pipeline has processNum workers per stage: no more than that can wait at once
				reach, reachEth = processNum, 0
			}
			e.chain.mu.Lock()
			e.chain.gate = reach
			if reachEth > 1 {
				e.chain.nonceGate = reachEth
			}
			e.chain.mu.Unlock()
		}
		var wg sync.WaitGroup
		for _, s := range senders {
			wg.Add(1)
			go func(subs []*sub) {
				defer wg.Done()
				cli := e.q.Client()
				var msgs []*queue.Message
				for _, sb := range subs { // the whole burst first ...
					m := cli.NewMessage("mempool", types.EventTx, sb.tx)
					if err := cli.Send(m, true); err != nil {
						lib.Inconclusive("send failed: %v", err)
					}
					msgs = append(msgs, m)
				}
				for i, m := range msgs { // ... then every reply: quiescence is "all replies in", never a sleep
					resp, err := cli.WaitTimeout(m, vfWatchdog)
					if err == queue.ErrQueueTimeout || resp == nil {
						lib.Inconclusive("no reply to a burst submission within %v (gate %v)", vfWatchdog, c.Gated)
					}
					r := resp.GetData().(*types.Reply)
					subs[i].ok, subs[i].msg, subs[i].done = r.IsOk, string(r.Msg), true
				}
			}(plan[s])
		}
		wg.Wait()

		fail := func(format string, a ...interface{}) {
			lib.Violation(t, "C22", "TestPropAdmissionBurst", c, format, a...)
		}
		pooled := vfHashSet(e.entries())
		listed := map[string]bool{}
		for _, tx := range e.call(types.EventTxList, &types.TxHashList{Count: c.Cap + 10}).GetData().(*types.ReplyTxList).Txs {
			listed[string(tx.Hash())] = true
		}
		okCount, errSeen, okSeen := map[string]int{}, 0, 0
		for _, s := range senders {
			for _, sb := range plan[s] {
				if sb.ok {
					okCount[string(sb.tx.Hash())]++
					okSeen++
				} else {
					errSeen++
					lib.Class("burst_reply:" + sb.msg)
				}
			}
		}
		for _, s := range senders {
			for _, sb := range plan[s] {
				h := string(sb.tx.Hash())
				in := pooled[h] || listed[h] || e.mem.cache.Exist(h)
				switch {
				case sb.ok && !(pooled[h] && e.mem.cache.Exist(h)): // (c)
					fail("sender %d: submission %s was answered ok but is not in the pool", s, vfHex(sb.tx.Hash()))
				case !sb.ok && in && okCount[h] == 0 && !prefilled[h]: // (a)
					fail("sender %d: submission %s was refused (%s) but is in the pool (walk %v, producer list %v, Exist %v)", s, vfHex(sb.tx.Hash()), sb.msg, pooled[h], listed[h], e.mem.cache.Exist(h))
				case okCount[h] > 1: // (a)
					fail("sender %d: submission %s was answered ok %d times", s, vfHex(sb.tx.Hash()), okCount[h])
				}
			}
		}
		// (b)
		items := e.entries()
		if int64(len(items)) > c.Cap || int64(e.mem.Size()) > c.Cap {
			fail("pool holds %d transactions, capacity %d", len(items), c.Cap)
		}
		count, nonces := map[string]int64{}, map[string]map[int64]bool{}
		for _, it := range items {
			from := it.Value.From()
			count[from]++
			if types.IsEthSignID(it.Value.GetSignature().GetTy()) {
				if nonces[from] == nil {
					nonces[from] = map[int64]bool{}
				}
				if nonces[from][it.Value.Nonce] {
					fail("eth sender %s has two pooled transactions with nonce %d", from, it.Value.Nonce)
				}
				nonces[from][it.Value.Nonce] = true
			}
		}
		oversubscribed := false
		for _, s := range senders {
			a := vfSenders[s].addr
			if count[a] > c.PerAcc {
				fail("sender %d has %d pooled transactions, limit %d", s, count[a], c.PerAcc)
			}
			if n := e.mem.TxNumOfAccount(a); n != count[a] {
				fail("sender %d: TxNumOfAccount=%d, pool holds %d of its transactions", s, n, count[a])
			}
			if p := int64(c.Prefill[fmt.Sprint(s)]); p < c.PerAcc && p+int64(len(plan[s])) > c.PerAcc {
				oversubscribed = true // below the limit, and more in flight than the limit leaves room for
			}
		}
		if c.Gated {
			lib.Class("burst_gated")
		} else {
			lib.Class("burst_free_running")
		}
		if oversubscribed {
			lib.Class("burst_oversubscribes_a_sender_below_its_limit")
		}
		if c.Cap < int64(total+nburst) {
			lib.Class("burst_exceeds_pool_capacity")
		}
		if oversubscribed && errSeen > 0 && okSeen > 0 {
			lib.NonTrivialCase(c)
		}
	})
}

// Minimal case: one eth-signed sender, current nonce 0, two different transactions with nonce 0 submitted without
// waiting for the first reply (the fake blockchain peer answers both duplicate checks together). The nonce-pending
// test (evmTxNonceCheck) and the push are two separate critical sections, so both can pass the test before either
// is pushed. Which of the two workers runs first is up to the scheduler: the case is repeated until it shows or 5000
// attempts are over (the clock or scheduler can only hide the finding, never invent it).
func TestKnown_C22ConcurrentSameNonce(t *testing.T) {
	defer lib.Flush()
	vfInitSenders()
	e := vfNewEnv(vfOpts{cap: 10, perAcc: 5, maxLast: 5})
	defer e.close()
	for attempt := 0; attempt < 5000; attempt++ {
		specs := []vfTxSpec{{Sender: 4, To: 0, Nonce: 0, Fee: vfFee + int64(2*attempt)}, {Sender: 4, To: 1, Nonce: 0, Fee: vfFee + int64(2*attempt+1)}}
		txs := []*types.Transaction{vfBuildTx(e.cfg, specs[0]), vfBuildTx(e.cfg, specs[1])}
		e.chain.mu.Lock()
		e.chain.gate, e.chain.nonceGate = 2, 2
		e.chain.mu.Unlock()
		var msgs []*queue.Message
		for _, tx := range txs {
			m := e.cli.NewMessage("mempool", types.EventTx, tx)
			if err := e.cli.Send(m, true); err != nil {
				lib.Inconclusive("send failed: %v", err)
			}
			msgs = append(msgs, m)
		}
		oks := 0
		for _, m := range msgs {
			resp, err := e.cli.WaitTimeout(m, vfWatchdog)
			if err == queue.ErrQueueTimeout || resp == nil {
				lib.Inconclusive("no reply within %v", vfWatchdog)
			}
			if resp.GetData().(*types.Reply).IsOk {
				oks++
			}
		}
		pooled := len(e.entries())
		e.call(types.EventDelTxList, &types.TxHashList{Hashes: [][]byte{txs[0].Hash(), txs[1].Hash()}}) // empty pool for the next attempt
		if oks == 2 || pooled == 2 {
			lib.KnownOrViolation(t, "C22", "TestKnown_C22ConcurrentSameNonce", vfFindingNonceRace,
				map[string]interface{}{"sender": 4, "curNonce": 0, "txs": specs, "attempt": attempt, "okReplies": oks, "pooled": pooled},
				"two different eth-signed transactions of one sender with the same nonce, in the admission pipeline at once, are both admitted: evmTxNonceCheck reads the sender's pending nonces and PushTx inserts in two separate critical sections")
			return
		}
	}
}

// ---------------------------------------------------------------- eth nonce clause along a chain history

// The current nonce of an eth-signed sender is chain state: the evm executor counts the sender's executed
// transactions, rpc answers EventGetEvmNonce from that state, and evmTxNonceCheck refuses nonce < that answer. So it
// ADVANCES with every connected block by the number of the sender's eth-signed transactions in it (pooled here or
// not) and goes back when the block is disconnected. A history case keeps that state in the fake chain (blocks with
// their transactions; the rpc fake answers base + count over the blocks) and interleaves, on one pool: eth
// submissions with nonces below / at / above the sender's current nonce, plain submissions, add-block (the
// senders' next nonces, taken from the pool where pooled, otherwise "seen elsewhere"), del-block of the tip, small
// reorganisations (chain ahead of or in step with the events), and evictions that leave the pool empty or holding
// other senders only. Oracle per eth submission, from the property text and the scripted chain state at that moment:
// nonce below the current nonce, or equal to the nonce of a pooled transaction of the sender => it must not enter.
// Control: otherwise it must be admitted (else inconclusive: the generator's picture of the state is wrong).
type vfNonceBlock struct {
	blk *types.Block
	eth map[int]int // eth sender -> number of its eth-signed transactions in the block
}

func TestPropAdmissionNonceHistory(t *testing.T) {
	defer lib.Flush()
	vfInitSenders()
	slow := 0
	rapid.Check(t, func(t *rapid.T) {
		intn := func(n int, label string) int { return rapid.IntRange(0, n-1).Draw(t, label) }
		e := vfNewEnv(vfOpts{cap: 200, perAcc: 100, maxLast: 10})
		defer e.close()
		base := map[int]int64{}
		for s := 4; s <= 6; s++ {
			base[s] = int64(intn(3, "baseNonce"))
		}
		var chain []*vfNonceBlock
		var history []map[string]interface{}
		height, btime, uniq := vfBaseHeight, vfBaseTime, int64(0)
		cur := func(s int) int64 {
			n := base[s]
			for _, b := range chain {
				n += int64(b.eth[s])
			}
			return n
		}
		publish := func() { // the fake peers answer from the chain state
			e.chain.mu.Lock()
			for s := 4; s <= 6; s++ {
				e.chain.nonce[vfSenders[s].addr] = cur(s)
			}
			e.chain.onChain = map[string]bool{}
			for _, b := range chain {
				for _, tx := range b.blk.Txs {
					e.chain.onChain[string(tx.Hash())] = true
				}
			}
			e.chain.mu.Unlock()
			e.chain.setHeader(height, btime)
		}
		publish()
		logEv := func(kv ...interface{}) {
			ev := map[string]interface{}{}
			for i := 0; i+1 < len(kv); i += 2 {
				ev[kv[i].(string)] = kv[i+1]
			}
			history = append(history, ev)
		}
		fail := func(format string, a ...interface{}) {
			lib.Violation(t, "C22", "TestPropAdmissionNonceHistory", map[string]interface{}{"baseNonce": base, "history": history}, format, a...)
		}
		build := func(s int, nonce int64) *types.Transaction {
			uniq++
			return vfBuildTx(e.cfg, vfTxSpec{Sender: s, To: int(uniq % 3), Nonce: nonce, Fee: vfFee + uniq})
		}
		pooledNonces := func(s int) map[int64]*types.Transaction {
			m := map[int64]*types.Transaction{}
			for _, it := range e.entries() {
				if it.Value.From() == vfSenders[s].addr {
					m[it.Value.Nonce] = it.Value
				}
			}
			return m
		}
		// newBlock builds the next block: for some eth senders their next one or two nonces, plus plain transactions
		newBlock := func(h int64, nonceAt func(int) int64) *vfNonceBlock {
			b := &vfNonceBlock{blk: &types.Block{Height: h}, eth: map[int]int{}}
			for s := 4; s <= 6; s++ {
				if intn(2, "blkHasSender") == 0 {
					continue
				}
				have := pooledNonces(s)
				for k, n := 0, 1+intn(2, "blkSenderTxs"); k < n; k++ {
					nonce := nonceAt(s) + int64(k)
					tx := have[nonce]
					if tx == nil || intn(4, "blkElsewhere") == 0 {
						tx = build(s, nonce) // went through another node
					}
					b.blk.Txs = append(b.blk.Txs, tx)
					b.eth[s]++
				}
			}
			for _, it := range e.entries() {
				if !types.IsEthSignID(it.Value.GetSignature().GetTy()) && intn(2, "blkPlain") == 0 {
					b.blk.Txs = append(b.blk.Txs, it.Value)
				}
			}
			return b
		}
		changed := map[int]bool{} // senders whose current nonce moved by a block event since their last submission
		poolClass := func(b *vfNonceBlock) {
			items := e.entries()
			mine := false
			for _, it := range items {
				for s := range b.eth {
					if it.Value.From() == vfSenders[s].addr {
						mine = true
					}
				}
			}
			switch {
			case len(items) == 0:
				lib.Class("nonce_block_event_with_pool_empty")
			case !mine:
				lib.Class("nonce_block_event_with_pool_holding_other_senders_only")
			default:
				lib.Class("nonce_block_event_with_pool_holding_the_senders_txs")
			}
		}
		addBlock := func(b *vfNonceBlock, op string) {
			poolClass(b)
			e.cast(types.EventAddBlock, &types.BlockDetail{Block: b.blk})
			logEv("op", op, "height", b.blk.Height, "ethTxs", b.eth, "txs", len(b.blk.Txs))
			for s := range b.eth {
				changed[s] = true
			}
		}
		delBlock := func(b *vfNonceBlock, op string) {
			poolClass(b)
			e.cast(types.EventDelBlock, &types.BlockDetail{Block: b.blk})
			logEv("op", op, "height", b.blk.Height, "ethTxs", b.eth)
			for s := range b.eth {
				changed[s] = true
			}
		}
		grow := func() {
			height++
			btime += int64(intn(3, "dt"))
			b := newBlock(height, cur)
			chain = append(chain, b)
			publish()
			addBlock(b, "addBlock")
		}
		judged, nontrivial := 0, false
		for i, n := 0, 4+intn(24, "events"); i < n; i++ {
			switch op := intn(100, "op"); {
			case op < 42: // eth submission around the current nonce
				s := 4 + intn(3, "ethSender")
				c := cur(s)
				nonce := c + []int64{-2, -1, -1, -1, 0, 0, 0, 1, 1, 2}[intn(10, "delta")]
				if nonce < 0 {
					nonce = 0
				}
				_, pending := pooledNonces(s)[nonce]
				tx := build(s, nonce)
				before := vfHashSet(e.entries())
				start := time.Now()
				ok, msg := e.submit(tx)
				if time.Since(start) > 1500*time.Millisecond { // the pool's own 2 s nonce timeout may have fired
					if slow++; slow > 20 {
						lib.Inconclusive("EventTx repeatedly took longer than 1.5 s")
					}
					lib.Class("slow_submission_skipped")
					continue
				}
				entered := ok || (!before[string(tx.Hash())] && vfHashSet(e.entries())[string(tx.Hash())])
				logEv("op", "submit", "sender", s, "nonce", nonce, "currentNonce", c, "pendingSameNonce", pending, "ok", ok, "msg", msg)
				judged++
				switch {
				case nonce < c && entered:
					fail("eth sender %d: nonce %d admitted although the sender's current nonce is %d (reply %q)", s, nonce, c, msg)
				case pending && entered:
					fail("eth sender %d: nonce %d admitted although a pooled transaction of the sender carries it", s, nonce)
				case nonce >= c && !pending && !entered:
					lib.Inconclusive("C22 nonce history control: nonce %d >= current %d, nothing pending, yet rejected: %s (history %v)", nonce, c, msg, history)
				}
				switch {
				case nonce < c:
					lib.Class("nonce_below_current_rejected")
					if changed[s] {
						lib.Class("nonce_below_current_after_block_moved_it")
						nontrivial = true
					}
				case pending:
					lib.Class("nonce_pending_rejected")
				default:
					lib.Class("nonce_at_or_above_current_admitted")
					if changed[s] {
						lib.Class("nonce_at_or_above_current_after_block_moved_it")
					}
				}
				changed[s] = false
			case op < 50: // plain submission
				if ok, msg := e.submit(build(intn(3, "plainSender"), 9000+uniq)); !ok {
					lib.Inconclusive("C22 nonce history fixture: plain transaction rejected: %s", msg)
				}
				logEv("op", "submitPlain")
			case op < 74: // ordinary growth
				grow()
			case op < 81: // the tip is disconnected
				if len(chain) == 0 {
					continue
				}
				b := chain[len(chain)-1]
				chain = chain[:len(chain)-1]
				height--
				publish()
				delBlock(b, "delBlock")
			case op < 88: // reorganisation of the top 1..2 blocks; the chain side is finished first (ahead) or moves in step
				if len(chain) == 0 {
					continue
				}
				d := 1 + intn(vfMin(2, len(chain)), "reorgDepth")
				old := append([]*vfNonceBlock(nil), chain[len(chain)-d:]...)
				ahead := intn(2, "reorgAhead") == 0
				chain = chain[:len(chain)-d]
				height -= int64(d)
				var fresh []*vfNonceBlock
				for j, l := 0, 1+intn(d+1, "reorgLen"); j < l; j++ {
					height++
					nb := newBlock(height, cur)
					chain = append(chain, nb)
					fresh = append(fresh, nb)
				}
				lib.Class("nonce_reorg")
				if ahead { // add-blocks (high priority) overtake, every query already sees the new branch
					publish()
					for _, nb := range fresh {
						addBlock(nb, "reorg-addBlock")
					}
					for k := d - 1; k >= 0; k-- {
						delBlock(old[k], "reorg-delBlock")
					}
				} else {
					full := chain
					chain = append(append([]*vfNonceBlock(nil), full[:len(full)-len(fresh)]...), old...)
					hh := height
					height = old[d-1].blk.Height
					for k := d - 1; k >= 0; k-- {
						chain = chain[:len(chain)-1]
						height--
						publish()
						delBlock(old[k], "reorg-delBlock")
					}
					for _, nb := range fresh {
						chain = append(chain, nb)
						height = nb.blk.Height
						publish()
						addBlock(nb, "reorg-addBlock")
					}
					chain, height = full, hh
				}
				publish()
			case op < 95: // everything is evicted: the next block event meets an empty pool
				req := &types.TxHashList{}
				for _, it := range e.entries() {
					req.Hashes = append(req.Hashes, it.Value.Hash())
				}
				if len(req.Hashes) > 0 {
					e.call(types.EventDelTxList, req)
					logEv("op", "evictAll", "n", len(req.Hashes))
				}
				if intn(2, "blockOnEmptyPool") == 0 {
					grow()
				}
			default: // the eth transactions are evicted: the pool holds other senders only
				req := &types.TxHashList{}
				for _, it := range e.entries() {
					if types.IsEthSignID(it.Value.GetSignature().GetTy()) {
						req.Hashes = append(req.Hashes, it.Value.Hash())
					}
				}
				if len(req.Hashes) > 0 {
					e.call(types.EventDelTxList, req)
					logEv("op", "evictEth", "n", len(req.Hashes))
				}
				if intn(2, "blockOnOthersOnly") == 0 {
					grow()
				}
			}
		}
		lib.EvalN(judged)
		if nontrivial {
			lib.NonTrivialCase(map[string]interface{}{"baseNonce": base, "history": history})
		}
	})
}

// ---------------------------------------------------------------- a known body presented again with other signature material

// A transaction's id (Hash) covers neither the signature nor the public key. A re-present case therefore takes the
// BODY of an earlier submission whose signature verified but which is currently neither pooled nor on chain - it
// was refused at a later pipeline step (scripted exec-check error, pending eth nonce, full pool) or admitted and then
// removed (EventDelTxList, expiry sweep) - and submits that body again with (a) the original signature, (b) a valid
// signature by another account, (c) the original signature under another account's public key, (d) broken
// signature bytes / a signature made with another key. Oracle, from "every signature verifies": (c) and (d) never
// enter; after every event every pooled transaction verifies (types.Transaction.CheckSign on the pooled object) and
// (a)/(b) are indexed under the account that signed. Controls: (a)/(b) must be admitted when the state allows.
// The fake blockchain reports only scripted hashes as packed, so it never masks the pool's own verdict here.
func TestPropAdmissionRepresent(t *testing.T) {
	defer lib.Flush()
	vfInitSenders()
	rapid.Check(t, func(t *rapid.T) {
		intn := func(n int, label string) int { return rapid.IntRange(0, n-1).Draw(t, label) }
		capacity := int64(60)
		if intn(10, "smallPool") == 0 {
			capacity = int64(2 + intn(2, "cap"))
		}
		e := vfNewEnv(vfOpts{cap: capacity, perAcc: 100, maxLast: 10})
		defer e.close()
		type body struct {
			id   string
			spec vfTxSpec
			tx   *types.Transaction // as first submitted, correctly signed
			how  string             // how it came to be verified-but-absent
		}
		var bodies []*body
		var history []map[string]interface{}
		logEv := func(kv ...interface{}) {
			ev := map[string]interface{}{}
			for i := 0; i+1 < len(kv); i += 2 {
				ev[kv[i].(string)] = kv[i+1]
			}
			history = append(history, ev)
		}
		fail := func(format string, a ...interface{}) {
			lib.Violation(t, "C22", "TestPropAdmissionRepresent", map[string]interface{}{"cap": capacity, "history": history}, format, a...)
		}
		uniq, fullRejects := int64(0), 0
		pooled := func() map[string]*types.Transaction {
			m := map[string]*types.Transaction{}
			for _, it := range e.entries() {
				m[string(it.Value.Hash())] = it.Value
			}
			return m
		}
		pendingNonce := func(addr string, nonce int64) bool {
			for _, it := range e.entries() {
				if it.Value.From() == addr && it.Value.Nonce == nonce {
					return true
				}
			}
			return false
		}
		verified := map[*types.Transaction]bool{} // pooled objects already verified by the harness (verification is the costly part)
		checkPool := func() {                     // every pooled transaction's signature verifies
			for _, it := range e.entries() {
				if verified[it.Value] {
					continue
				}
				verified[it.Value] = true
				if !it.Value.CheckSign(e.mem.GetHeader().GetHeight() + 1) {
					fail("the pool holds %s whose signature does not verify (claimed sender %s)", vfHex(it.Value.Hash()), it.Value.From())
				}
			}
		}
		judged, nontrivial := 0, false
		for i, n := 0, 4+intn(16, "events"); i < n; i++ {
			switch op := intn(100, "op"); {
			case op < 40 || len(bodies) == 0: // a new, correctly signed transaction; some are refused after the signature step
				uniq++
				b := &body{id: fmt.Sprintf("b%d", len(bodies)), spec: vfTxSpec{Sender: []int{0, 1, 2, 4, 5}[intn(5, "sender")], To: intn(3, "to"), Nonce: 7000 + uniq, Fee: vfFee + uniq}}
				eth := vfSenders[b.spec.Sender].eth
				if eth {
					b.spec.Nonce = int64(intn(3, "ethNonce"))
				}
				b.tx = vfBuildTx(e.cfg, b.spec)
				if _, dup := pooled()[string(b.tx.Hash())]; dup {
					continue
				}
				full := int64(len(e.entries())) >= capacity
				if full && fullRejects >= 1 {
					continue // each refusal at a full pool costs the pool's 200 ms back-off
				}
				execErr := intn(3, "execErr") == 0
				if execErr {
					e.chain.mu.Lock()
					e.chain.execErr[string(b.tx.Hash())] = "ErrScriptedExecCheck"
					e.chain.mu.Unlock()
				}
				ok, msg := e.submit(b.tx)
				e.chain.mu.Lock()
				delete(e.chain.execErr, string(b.tx.Hash()))
				e.chain.mu.Unlock()
				if full && !ok {
					fullRejects++
				}
				b.how = "admitted"
				if !ok {
					b.how = "refused:" + msg
				}
				logEv("op", "submit", "body", b.id, "spec", b.spec, "execErr", execErr, "ok", ok, "msg", msg)
				bodies = append(bodies, b)
			case op < 52: // eviction
				var hs [][]byte
				for _, it := range e.entries() {
					if intn(2, "evict") == 0 {
						hs = append(hs, it.Value.Hash())
					}
				}
				if len(hs) > 0 {
					e.call(types.EventDelTxList, &types.TxHashList{Hashes: hs})
					logEv("op", "evict", "n", len(hs))
				}
			case op < 60: // pool-age expiry and sweep
				if items := e.entries(); len(items) > 0 {
					e.age(items[intn(len(items), "ageIdx")].Value.Hash())
					e.mem.removeExpired()
					logEv("op", "ageAndSweep")
				}
			default: // re-present a body that is known to the pool's pipeline but absent from the pool
				in := pooled()
				var cand []*body
				for _, b := range bodies {
					if in[string(b.tx.Hash())] == nil {
						cand = append(cand, b)
					}
				}
				if len(cand) == 0 {
					continue
				}
				b := cand[intn(len(cand), "body")]
				variant := []string{"original", "resigned", "pubkey_swapped", "pubkey_swapped", "sig_broken", "sig_broken"}[intn(6, "variant")]
				eth := vfSenders[b.spec.Sender].eth
				other := (b.spec.Sender + 1) % 3
				if eth {
					other = 9 - b.spec.Sender // 4 <-> 5
				}
				tx := types.CloneTx(b.tx)
				sig := b.tx.Signature
				tx.Signature = &types.Signature{Ty: sig.Ty, Pubkey: append([]byte(nil), sig.Pubkey...), Signature: append([]byte(nil), sig.Signature...)}
				signer := b.spec.Sender
				switch variant {
				case "resigned":
					tx.Sign(vfSenders[other].ty, vfSenders[other].priv)
					signer = other
				case "pubkey_swapped":
					tx.Signature.Pubkey = vfSenders[other].priv.PubKey().Bytes()
				case "sig_broken":
					vfBreakSignature(tx, b.spec.Sender, intn(3, "breakHow"))
				}
				full := int64(len(e.entries())) >= capacity
				if full && fullRejects >= 1 {
					continue
				}
				blockedByState := full || (eth && pendingNonce(tx.From(), tx.Nonce))
				start := time.Now()
				ok, msg := e.submit(tx)
				if time.Since(start) > 1500*time.Millisecond {
					lib.Class("slow_submission_skipped")
					continue
				}
				if full && !ok {
					fullRejects++
				}
				entered := ok || pooled()[string(tx.Hash())] != nil
				logEv("op", "represent", "body", b.id, "was", b.how, "variant", variant, "ok", ok, "msg", msg)
				judged++
				lib.Class("represent_" + variant)
				lib.Class("represent_body_was_" + strings.SplitN(b.how, " ", 2)[0])
				switch variant {
				case "pubkey_swapped", "sig_broken":
					if entered {
						fail("body %s (%s earlier) re-presented with %s was admitted (reply %q); it is pooled under sender %s", b.id, b.how, variant, msg, tx.From())
					}
					nontrivial = true
				default:
					if !entered && !blockedByState {
						lib.Inconclusive("C22 re-present control: %s copy of %s rejected: %s (history %v)", variant, b.id, msg, history)
					}
					if entered {
						if p := pooled()[string(tx.Hash())]; p == nil || p.From() != vfSenders[signer].addr {
							fail("body %s re-presented (%s) is not pooled under its signer %s", b.id, variant, vfSenders[signer].addr)
						}
					}
				}
			}
			checkPool()
		}
		lib.EvalN(judged)
		if nontrivial {
			lib.NonTrivialCase(map[string]interface{}{"cap": capacity, "history": history})
		}
	})
}
