package mempool

// C21 (mempool bookkeeping stays consistent) and the fixture shared with C22 / C23.
//
// Fixture: a real Mempool (NewMempool + SimpleQueue, exactly as system/mempool/timeline assembles it) on a real
// queue whose peers "blockchain", "execs", "rpc" and "p2p" are scripted fakes owned by the harness (vfChain).
// No wall clock: the fake chain lives at block times around 4e9 (year 2096), so the only wall-clock clause of the
// admission path (Expire < now+60s) can never trigger; pool age is exercised by writing Item.EnterTime directly;
// the one-minute sweep ticker is stopped and the sweep is invoked explicitly.

import (
	"bytes"
	"encoding/hex"
	"fmt"
	"os"
	"path/filepath"
	"sync"
	"sync/atomic"
	"testing"
	"time"

	"github.com/33cn/chain33/common/address"
	"github.com/33cn/chain33/common/crypto"
	"github.com/33cn/chain33/common/log/log15"
	"github.com/33cn/chain33/queue"
	"github.com/33cn/chain33/system/address/eth"
	"github.com/33cn/chain33/system/crypto/secp256k1eth"
	cty "github.com/33cn/chain33/system/dapp/coins/types"
	"github.com/33cn/chain33/types"
	"pgregory.net/rapid"
	"verifharness/lib"
)

// ---------------------------------------------------------------- fixture

const (
	vfBaseTime   = int64(4000000000) // block time of the fake chain's first header
	vfBaseHeight = int64(10)
	vfWatchdog   = 60 * time.Second
	vfFee        = int64(1000000) // 10 x the configured minTxFeeRate (1e5): enough for any tx < 10 kB
)

func init() { log15.Root().SetHandler(log15.DiscardHandler()) } // chain33 logs every rejected push at error level

var (
	vfCfgOnce sync.Once
	vfCfgText string
)

// vfConfigText returns the merged test + fork configuration the package's own tests use (ForkCheckEthTxSort=0).
func vfConfigText() string {
	vfCfgOnce.Do(func() {
		repo := os.Getenv("VERIF_REPO")
		if repo == "" {
			repo = "/repo"
		}
		vfCfgText = types.MergeCfg(types.ReadFile(filepath.Join(repo, "cmd/chain33/chain33.test.toml")),
			types.ReadFile(filepath.Join(repo, "cmd/chain33/chain33.fork.toml")))
	})
	return vfCfgText
}

// vfChain is the scripted state behind the fake peers.
type vfChain struct {
	mu      sync.Mutex
	header  *types.Header
	onChain map[string]bool   // tx hashes "blockchain" reports as already packed
	execErr map[string]string // pool-entry hash -> error text returned by "execs"
	nonce   map[string]int64  // eth sender -> current nonce returned by "rpc"
	bcast   int               // EventTxBroadcast messages seen by "p2p"
	// gate > 0: the "blockchain" fake holds its duplicate-check answers until that many submissions wait for one, then
	// answers them all and stays open. Every held submission has passed the synchronous checks of the event loop and
	// none has reached the final push: the harness thereby scripts "several submissions in the pipeline at once"
	// without any dependence on timing.
	gate int
	held []func()
	// nonceGate > 0: likewise the "rpc" fake holds its current-nonce answers until that many eth-signed submissions
	// wait for one (they are then all just before the pending-nonce test)
	nonceGate int
	nonceHeld []func()
}

func (c *vfChain) setHeader(height, blockTime int64) {
	c.mu.Lock()
	c.header = &types.Header{Height: height, BlockTime: blockTime}
	c.mu.Unlock()
}

func (c *vfChain) getHeader() *types.Header {
	c.mu.Lock()
	defer c.mu.Unlock()
	return &types.Header{Height: c.header.Height, BlockTime: c.header.BlockTime}
}

type vfEnv struct {
	q       queue.Queue
	cfg     *types.Chain33Config
	mem     *Mempool
	cli     queue.Client
	chain   *vfChain
	peers   []queue.Client
	restore func()
}

type vfOpts struct {
	cap, perAcc, maxLast int64
	levelFee             bool
	blocked              []string
	height, btime        int64 // tip of the fake chain when the mempool starts (0 = vfBaseHeight / vfBaseTime)
}

func (c *vfChain) serve(cli queue.Client, topic string) {
	cli.Sub(topic)
	go func() {
		for msg := range cli.Recv() {
			switch msg.Ty {
			case types.EventGetLastHeader:
				msg.Reply(cli.NewMessage("", types.EventHeader, c.getHeader()))
			case types.EventIsSync:
				msg.Reply(cli.NewMessage("", types.EventReplyIsSync, &types.IsCaughtUp{Iscaughtup: true}))
			case types.EventTxHashList:
				var dup [][]byte
				c.mu.Lock()
				for _, h := range msg.Data.(*types.TxHashList).Hashes {
					if c.onChain[string(h)] {
						dup = append(dup, h)
					}
				}
				m := msg
				answer := func() { m.Reply(cli.NewMessage("", types.EventTxHashListReply, &types.TxHashList{Hashes: dup})) }
				var run []func()
				if c.gate > 0 {
					c.held = append(c.held, answer)
					if len(c.held) >= c.gate {
						run, c.held, c.gate = c.held, nil, 0
					}
				} else {
					run = []func(){answer}
				}
				c.mu.Unlock()
				for _, f := range run {
					f()
				}
			case types.EventCheckTx:
				res := &types.ReceiptCheckTxList{}
				c.mu.Lock()
				for _, tx := range msg.Data.(*types.ExecTxList).Txs {
					res.Errs = append(res.Errs, c.execErr[string(tx.Hash())])
				}
				c.mu.Unlock()
				msg.Reply(cli.NewMessage("", types.EventReceiptCheckTx, res))
			case types.EventGetEvmNonce:
				c.mu.Lock()
				n := c.nonce[msg.Data.(*types.ReqEvmAccountNonce).Addr]
				m := msg
				answer := func() { m.Reply(cli.NewMessage("", types.EventGetEvmNonce, &types.EvmAccountNonce{Nonce: n})) }
				var run []func()
				if c.nonceGate > 0 {
					c.nonceHeld = append(c.nonceHeld, answer)
					if len(c.nonceHeld) >= c.nonceGate {
						run, c.nonceHeld, c.nonceGate = c.nonceHeld, nil, 0
					}
				} else {
					run = []func(){answer}
				}
				c.mu.Unlock()
				for _, f := range run {
					f()
				}
			case types.EventTxBroadcast:
				c.mu.Lock()
				c.bcast++
				c.mu.Unlock()
			}
		}
	}()
}

func vfNewEnv(o vfOpts) *vfEnv {
	cfg := types.NewChain33Config(vfConfigText())
	e := &vfEnv{cfg: cfg, q: queue.New("channel"), chain: &vfChain{onChain: map[string]bool{}, execErr: map[string]string{}, nonce: map[string]int64{}}}
	e.q.SetConfig(cfg)
	if o.height == 0 {
		o.height, o.btime = vfBaseHeight, vfBaseTime
	}
	e.chain.setHeader(o.height, o.btime)
	for _, topic := range []string{"blockchain", "execs", "rpc", "p2p"} {
		cli := e.q.Client()
		e.chain.serve(cli, topic)
		e.peers = append(e.peers, cli)
	}
	e.restore = types.SetBlockedAccountsForTest(o.blocked)
	mcfg := *cfg.GetModuleConfig().Mempool
	mcfg.PoolCacheSize, mcfg.MaxTxNumPerAccount, mcfg.MaxTxLast, mcfg.IsLevelFee = o.cap, o.perAcc, o.maxLast, o.levelFee
	mcfg.MinTxFeeRate = cfg.GetMinTxFeeRate()
	e.mem = NewMempool(&mcfg)
	e.mem.removeBlockTicket.Stop() // the sweep is an explicit harness event (mem.removeExpired), never a timer
	e.mem.SetQueueCache(NewSimpleQueue(SubConfig{PoolCacheSize: mcfg.PoolCacheSize, ProperFee: mcfg.MinTxFeeRate}))
	e.mem.SetQueueClient(e.q.Client())
	e.mem.setSync(true)
	done := make(chan struct{})
	go func() { e.mem.Wait(); close(done) }()
	select {
	case <-done:
	case <-time.After(vfWatchdog):
		lib.Inconclusive("mempool fixture did not become ready")
	}
	e.cli = e.q.Client()
	return e
}

func (e *vfEnv) close() {
	e.mem.Close()
	for _, p := range e.peers {
		p.Close()
	}
	e.q.Close()
	e.restore()
}

// call sends one event to the mempool and waits for its reply under a watchdog (expiry = inconclusive, never a verdict).
func (e *vfEnv) call(ty int64, data interface{}) *queue.Message {
	msg := e.cli.NewMessage("mempool", ty, data)
	if err := e.cli.Send(msg, true); err != nil {
		lib.Inconclusive("send to mempool failed: %v", err)
	}
	resp, err := e.cli.WaitTimeout(msg, vfWatchdog)
	if err == queue.ErrQueueTimeout || resp == nil {
		lib.Inconclusive("no reply from mempool to event %d within %v (%v)", ty, vfWatchdog, err)
	}
	return resp
}

// cast sends an event that has no reply (EventAddBlock, EventDelBlock) and then a size query as a barrier: the
// mempool handles its messages on one goroutine in order, so the reply proves the event was processed.
func (e *vfEnv) cast(ty int64, data interface{}) {
	if err := e.cli.Send(e.cli.NewMessage("mempool", ty, data), true); err != nil {
		lib.Inconclusive("send to mempool failed: %v", err)
	}
	e.call(types.EventGetMempoolSize, nil)
}

// submit sends a transaction through EventTx and reports (admitted, error text).
func (e *vfEnv) submit(tx *types.Transaction) (bool, string) {
	r, ok := e.call(types.EventTx, tx).GetData().(*types.Reply)
	if !ok {
		lib.Inconclusive("EventTx reply has unexpected type")
	}
	return r.IsOk, string(r.Msg)
}

// entries returns the pool contents in queue order (the reference the other four structures are compared with).
func (e *vfEnv) entries() []*Item {
	e.mem.proxyMtx.Lock()
	defer e.mem.proxyMtx.Unlock()
	return vfWalk(e.mem)
}

func vfWalk(mem *Mempool) (items []*Item) {
	mem.cache.Walk(0, func(it *Item) bool { items = append(items, it); return true })
	return
}

// age makes a pooled transaction look as if it entered the pool long ago (pool-age expiry without a clock).
func (e *vfEnv) age(hash []byte) {
	e.mem.proxyMtx.Lock()
	if it, err := e.mem.cache.qcache.GetItem(string(hash)); err == nil {
		it.EnterTime = 1
	}
	e.mem.proxyMtx.Unlock()
}

// ---------------------------------------------------------------- senders and transactions

type vfSender struct {
	priv crypto.PrivKey
	ty   int32
	addr string
	eth  bool
}

var (
	// address book: 0..3 secp256k1 senders (btc-style address), 4..6 eth-signed senders (0x address), 7 a secp256k1
	// "filler" account used only to pre-fill pools, 8..9 further btc-style addresses that never send (blacklist targets)
	vfSenders    []*vfSender
	vfSenderOnce sync.Once
	vfEthSignTy  = types.EncodeSignID(secp256k1eth.ID, eth.ID)
)

const (
	vfNumSenders = 7 // senders a generated transaction may use: 0..6
	vfFiller     = 7
)

func vfInitSenders() {
	vfSenderOnce.Do(func() {
		for i := 0; i < 10; i++ {
			name, ty := types.GetSignName("", types.SECP256K1), int32(types.SECP256K1)
			if i >= 4 && i <= 6 {
				name, ty = secp256k1eth.Name, vfEthSignTy
			}
			drv, err := crypto.Load(name, -1)
			if err != nil {
				panic(err)
			}
			priv, err := drv.PrivKeyFromBytes(bytes.Repeat([]byte{byte(0x11 + i)}, 32))
			if err != nil {
				panic(err)
			}
			s := &vfSender{priv: priv, ty: ty, eth: ty == vfEthSignTy}
			s.addr = address.PubKeyToAddr(types.ExtractAddressID(ty), priv.PubKey().Bytes())
			vfSenders = append(vfSenders, s)
		}
	})
}

// vfRawAddr returns the 20 raw bytes behind an address-book entry (what an EVM transfer carries in Para).
func vfRawAddr(i int) []byte {
	a := vfSenders[i].addr
	if address.IsEthAddress(a) {
		b, err := hex.DecodeString(a[2:])
		if err != nil {
			panic(err)
		}
		return b
	}
	ba, err := address.NewBtcAddress(a)
	if err != nil {
		panic(err)
	}
	return ba.Hash160[:]
}

var vfTransfer = types.Encode(&cty.CoinsAction{Value: &cty.CoinsAction_Transfer{Transfer: &types.AssetsTransfer{Amount: 1}}, Ty: cty.CoinsActionTransfer})

// vfTxSpec is the plain-data description of a transaction (what the replay file shows).
type vfTxSpec struct {
	Sender  int    `json:"sender"`
	Nonce   int64  `json:"nonce"`
	Expire  int64  `json:"expire,omitempty"`
	Fee     int64  `json:"fee,omitempty"`     // 0 = vfFee
	ZeroFee bool   `json:"zeroFee,omitempty"` // literal fee 0
	To      int    `json:"to,omitempty"`      // address-book index of the recipient
	BadTo   string `json:"badTo,omitempty"`   // literal recipient string replacing To
	// 0: coins transfer to To; 1: evm call whose ContractAddr is To; 2: evm transfer whose 20-byte Para is To
	// (for 1 and 2 tx.To is the evm executor address, the real recipient only shows in the payload)
	Evm int `json:"evm,omitempty"`
	Big int `json:"big,omitempty"` // > 0: opaque "user.write" payload of that many bytes
}

func vfUnsigned(cfg *types.Chain33Config, s vfTxSpec) *types.Transaction {
	tx := &types.Transaction{Execer: []byte("coins"), Payload: vfTransfer, Fee: s.Fee, Expire: s.Expire, Nonce: s.Nonce,
		To: vfSenders[s.To].addr, ChainID: cfg.GetChainID()}
	if s.Fee == 0 && !s.ZeroFee {
		tx.Fee = vfFee
	}
	switch {
	case s.Big > 0:
		tx.Execer, tx.Payload = []byte("user.write"), bytes.Repeat([]byte{'x'}, s.Big)
	case s.Evm == 1:
		tx.Execer, tx.To = []byte("evm"), address.ExecAddress("evm")
		tx.Payload = types.Encode(&types.EVMContractAction4Chain33{Amount: 1, GasLimit: 10000, GasPrice: 1, Para: []byte{1, 2, 3, 4}, ContractAddr: vfSenders[s.To].addr})
	case s.Evm == 2:
		tx.Execer, tx.To = []byte("evm"), address.ExecAddress("evm")
		tx.Payload = types.Encode(&types.EVMContractAction4Chain33{Amount: 1, GasLimit: 10000, GasPrice: 1, Para: vfRawAddr(s.To), ContractAddr: address.ExecAddress("evm")})
	}
	if s.BadTo != "" {
		tx.To = s.BadTo
	}
	return tx
}

func vfBuildTx(cfg *types.Chain33Config, s vfTxSpec) *types.Transaction {
	tx := vfUnsigned(cfg, s)
	tx.Sign(vfSenders[s.Sender].ty, vfSenders[s.Sender].priv)
	return tx
}

// vfGroupOf chains unsigned member transactions into a well-formed group: group count, fee only on the head, Next /
// Header hashes (types.Transactions.RebuiltGroup is the repository's own routine for exactly that). With grind the
// last member's nonce is searched until the 32-byte group header is, by chance, well-formed protobuf (1 in ~500).
func vfGroupOf(txs []*types.Transaction, headFee int64, grind bool) *types.Transactions {
	for i, tx := range txs {
		tx.GroupCount, tx.Fee = int32(len(txs)), 0
		if i == 0 {
			tx.Fee = headFee
		}
	}
	g := &types.Transactions{Txs: txs}
	g.RebuiltGroup()
	for i := 0; grind; i++ {
		var probe types.Transactions
		if types.Decode(txs[0].Header, &probe) == nil {
			break
		}
		if i > 200000 {
			lib.Inconclusive("no group header that parses as protobuf found in 200000 tries")
		}
		txs[len(txs)-1].Nonce += 1 << 32
		g.RebuiltGroup()
	}
	return g
}

// vfBuildGroup builds a valid signed group and returns the wrapper transaction (what is submitted and pooled) and
// the member transactions as a block holds them.
func vfBuildGroup(cfg *types.Chain33Config, specs []vfTxSpec) (*types.Transaction, []*types.Transaction) {
	var txs []*types.Transaction
	for _, s := range specs {
		txs = append(txs, vfUnsigned(cfg, s))
	}
	g := vfGroupOf(txs, vfFee*int64(len(txs)), false)
	for i, s := range specs {
		txs[i].Sign(vfSenders[s.Sender].ty, vfSenders[s.Sender].priv)
	}
	return g.Tx(), g.GetTxs()
}

func vfHex(b []byte) string { return hex.EncodeToString(b)[:10] }

// ---------------------------------------------------------------- C21 oracle

// vfCheckBookkeeping evaluates every clause of C21 that relates the five structures to the pool contents.
// The pool contents are the queue's own list; everything else is read through the accessors the property names
// (Size / TxNumOfAccount / GetAccTxs / GetLatestTx / GetTotalCacheBytes / TotalFee / getTxListByHash).
// With locked=true the caller already holds mem.proxyMtx and the unexported equivalents are used.
func vfCheckBookkeeping(mem *Mempool, capacity, perAcc, maxLast int64, lastAdmitted []byte, locked bool) error {
	var items []*Item
	var size int
	var bytesTotal, fee int64
	var latest []*types.Transaction
	if locked {
		items, size, bytesTotal, fee, latest = vfWalk(mem), mem.cache.Size(), mem.cache.qcache.GetCacheBytes(), mem.cache.TotalFee(), mem.cache.GetLatestTx()
	} else {
		mem.proxyMtx.Lock()
		items, fee = vfWalk(mem), mem.cache.TotalFee()
		mem.proxyMtx.Unlock()
		size, bytesTotal, latest = mem.Size(), mem.GetTotalCacheBytes(), mem.GetLatestTx()
	}
	// no two transactions with the same hash; never above capacity
	pos := map[string]int{}
	var wantBytes, wantFee int64
	bySender := map[string][]string{}
	var senders []string
	for i, it := range items {
		h := string(it.Value.Hash())
		if _, dup := pos[h]; dup {
			return fmt.Errorf("hash %s held twice", vfHex([]byte(h)))
		}
		pos[h] = i
		wantBytes += int64(types.Size(it.Value))
		wantFee += it.Value.Fee
		from := it.Value.From()
		if _, ok := bySender[from]; !ok {
			senders = append(senders, from)
		}
		bySender[from] = append(bySender[from], h)
	}
	if size != len(items) {
		return fmt.Errorf("Size()=%d but the queue walk yields %d", size, len(items))
	}
	if int64(size) > capacity {
		return fmt.Errorf("pool holds %d transactions, capacity %d", size, capacity)
	}
	if bytesTotal != wantBytes {
		return fmt.Errorf("GetTotalCacheBytes=%d, contents sum to %d", bytesTotal, wantBytes)
	}
	if fee != wantFee {
		return fmt.Errorf("TotalFee=%d, contents sum to %d", fee, wantFee)
	}
	// per-sender index: count <= limit, equals the number of pool transactions of that sender, lists exactly those in arrival order
	accNum := func(a string) int64 {
		if locked {
			return int64(mem.cache.TxNumOfAccount(a))
		}
		return mem.TxNumOfAccount(a)
	}
	accTxs := func(a string) []*types.TransactionDetail {
		if locked {
			return mem.cache.GetAccTxs(&types.ReqAddrs{Addrs: []string{a}}).Txs
		}
		return mem.GetAccTxs(&types.ReqAddrs{Addrs: []string{a}}).Txs
	}
	for _, s := range vfSenders {
		if _, ok := bySender[s.addr]; !ok {
			senders = append(senders, s.addr) // senders without pooled transactions must have an empty index
		}
	}
	for _, a := range senders {
		want := bySender[a]
		if n := accNum(a); n != int64(len(want)) {
			return fmt.Errorf("TxNumOfAccount(%s)=%d, pool holds %d of its transactions", a, n, len(want))
		}
		if int64(len(want)) > perAcc {
			return fmt.Errorf("sender %s has %d pooled transactions, limit %d", a, len(want), perAcc)
		}
		got := accTxs(a)
		if len(got) != len(want) {
			return fmt.Errorf("GetAccTxs(%s) lists %d, pool holds %d", a, len(got), len(want))
		}
		for i, d := range got {
			if string(d.Tx.Hash()) != want[i] {
				return fmt.Errorf("GetAccTxs(%s)[%d]=%s, expected %s (arrival order)", a, i, vfHex(d.Tx.Hash()), vfHex([]byte(want[i])))
			}
		}
	}
	if len(mem.cache.accMap) != len(bySender) { // white-box: no index entry for a sender without pooled transactions
		return fmt.Errorf("per-sender index knows %d senders, pool has %d", len(mem.cache.accMap), len(bySender))
	}
	// latest list: subset of the pool, bounded, arrival ordered, ends with the newest admitted transaction if it survives
	if int64(len(latest)) > maxLast {
		return fmt.Errorf("latest list has %d entries, max %d", len(latest), maxLast)
	}
	prev := -1
	for _, tx := range latest {
		p, ok := pos[string(tx.Hash())]
		if !ok {
			return fmt.Errorf("latest list holds %s which is not in the pool", vfHex(tx.Hash()))
		}
		if p <= prev {
			return fmt.Errorf("latest list not in arrival order / repeats an entry")
		}
		prev = p
	}
	if _, ok := pos[string(lastAdmitted)]; ok && lastAdmitted != nil {
		if len(latest) == 0 || !bytes.Equal(latest[len(latest)-1].Hash(), lastAdmitted) {
			return fmt.Errorf("newest admitted transaction %s is pooled but is not the tail of the latest list", vfHex(lastAdmitted))
		}
	}
	// short-hash lookup <-> contents
	req := &types.ReqTxHashList{IsShortHash: true}
	for _, it := range items {
		req.Hashes = append(req.Hashes, types.CalcTxShortHash(it.Value.Hash()))
	}
	var found []*types.Transaction
	if locked {
		for _, sh := range req.Hashes {
			found = append(found, mem.cache.GetSHashTxCache(sh))
		}
	} else {
		found = mem.getTxListByHash(req).Txs
	}
	for i, it := range items {
		if found[i] == nil || !bytes.Equal(found[i].Hash(), it.Value.Hash()) {
			return fmt.Errorf("pooled transaction %s not found by its short hash", vfHex(it.Value.Hash()))
		}
	}
	if n := mem.cache.SHashTxCache.l.Size(); n != len(items) { // white-box: no short-hash entry without a pooled transaction
		return fmt.Errorf("short-hash lookup holds %d entries, pool %d", n, len(items))
	}
	return nil
}

// ---------------------------------------------------------------- C21 sequential state machine

type vfTxRec struct {
	ID      string
	Specs   []vfTxSpec
	tx      *types.Transaction   // what is submitted and pooled (the wrapper for a group)
	members []*types.Transaction // what a block holds
	// non-triviality bookkeeping: rejected while the pool was full / a sender at its limit, then an effective removal happened
	rejectedAtLimit, removedAfter bool
}

type vfBlockRec struct {
	blk  *types.Block
	recs []*vfTxRec
}

type vfMachine struct {
	t                    *rapid.T
	e                    *vfEnv
	cap, perAcc, maxLast int64
	known                []*vfTxRec
	byHash               map[string]*vfTxRec
	blocks               []*vfBlockRec
	height, btime        int64
	lastAdmitted         []byte
	nonceCtr             int64
	fullSubmits          int
	history              []map[string]interface{}
	nontrivial           bool
	hotBias              bool // concurrent variant: half of the transactions come from one "hot" plain sender
	hot                  int
}

func (m *vfMachine) render() interface{} {
	return map[string]interface{}{"cap": m.cap, "perAcc": m.perAcc, "maxLast": m.maxLast, "history": m.history}
}

func (m *vfMachine) fail(format string, a ...interface{}) {
	lib.Violation(m.t, "C21", "TestPropBookkeepingSeq", m.render(), "after event %d %v: %s", len(m.history), m.history[len(m.history)-1], fmt.Sprintf(format, a...))
}

func (m *vfMachine) log(op string, kv ...interface{}) map[string]interface{} {
	ev := map[string]interface{}{"op": op}
	for i := 0; i+1 < len(kv); i += 2 {
		ev[kv[i].(string)] = kv[i+1]
	}
	m.history = append(m.history, ev)
	return ev
}

func (m *vfMachine) intn(n int, label string) int { return rapid.IntRange(0, n-1).Draw(m.t, label) }

// newRec draws a fresh single transaction or group. Expiry is drawn around the fake chain's next height / time.
func (m *vfMachine) newRec(group bool) *vfTxRec {
	n := 1
	if group {
		n = 2 + m.intn(2, "groupExtra")
	}
	rec := &vfTxRec{ID: fmt.Sprintf("t%d", len(m.known))}
	for i := 0; i < n; i++ {
		sp := vfTxSpec{Sender: m.intn(vfNumSenders, "sender"), To: m.intn(vfNumSenders, "to")}
		if m.hotBias && m.intn(2, "fromHot") == 0 {
			sp.Sender = m.hot
		}
		if vfSenders[sp.Sender].eth {
			sp.Nonce = int64(m.intn(4, "ethNonce"))
			sp.To = 0 // keeps eth transactions of one sender and nonce identical, so that they collide by hash
		} else {
			m.nonceCtr++
			sp.Nonce = m.nonceCtr
		}
		switch m.intn(10, "expireMode") {
		case 0, 1: // by height: next height (= expired now) .. next height + 3
			sp.Expire = m.height + 1 + int64(m.intn(4, "expireDH"))
		case 2, 3: // by block time
			sp.Expire = m.btime + []int64{0, 1, 5, 50}[m.intn(4, "expireDT")]
		}
		rec.Specs = append(rec.Specs, sp)
	}
	if group {
		rec.tx, rec.members = vfBuildGroup(m.e.cfg, rec.Specs)
	} else {
		rec.tx = vfBuildTx(m.e.cfg, rec.Specs[0])
		rec.members = []*types.Transaction{rec.tx}
	}
	if old, ok := m.byHash[string(rec.tx.Hash())]; ok {
		return old
	}
	m.known = append(m.known, rec)
	m.byHash[string(rec.tx.Hash())] = rec
	return rec
}

func vfHashSet(items []*Item) map[string]bool {
	s := map[string]bool{}
	for _, it := range items {
		s[string(it.Value.Hash())] = true
	}
	return s
}

// after runs the C21 oracle after an event and maintains the non-triviality bookkeeping.
func (m *vfMachine) after(before []*Item) []*Item {
	if err := vfCheckBookkeeping(m.e.mem, m.cap, m.perAcc, m.maxLast, m.lastAdmitted, false); err != nil {
		m.fail("%v", err)
	}
	now := m.e.entries()
	have := vfHashSet(now)
	for _, it := range before {
		if !have[string(it.Value.Hash())] { // something left the pool
			for _, r := range m.known {
				if r.rejectedAtLimit {
					r.removedAfter = true
				}
			}
			lib.Class("event_removed_something")
			break
		}
	}
	return now
}

func (m *vfMachine) submit(rec *vfTxRec, before []*Item) {
	full := int64(len(before)) >= m.cap
	atLimit := false
	cnt := map[string]int64{}
	for _, it := range before {
		cnt[it.Value.From()]++
	}
	for _, mt := range rec.members {
		if cnt[mt.From()] >= m.perAcc {
			atLimit = true
		}
	}
	if full && !atLimit {
		m.fullSubmits++ // costs a 200 ms back-off inside checkTxRemote
	}
	ok, msg := m.e.submit(rec.tx)
	m.log("submit", "tx", rec.ID, "specs", rec.Specs, "ok", ok, "msg", msg)
	switch {
	case ok:
		lib.Class("submit_admitted")
		m.lastAdmitted = rec.tx.Hash()
		if rec.rejectedAtLimit && rec.removedAfter {
			m.nontrivial = true
			lib.Class("repush_after_removal_admitted")
		}
		rec.rejectedAtLimit = false
	case full:
		lib.Class("submit_rejected_pool_full")
		rec.rejectedAtLimit, rec.removedAfter = true, false
	case atLimit:
		lib.Class("submit_rejected_sender_at_limit")
		rec.rejectedAtLimit, rec.removedAfter = true, false
	default:
		lib.Class("submit_rejected_other:" + msg)
	}
	now := m.after(before)
	if ok && !vfHashSet(now)[string(rec.tx.Hash())] {
		m.fail("EventTx replied ok but %s is not in the pool", rec.ID)
	}
}

func (m *vfMachine) pickKnown(label string) *vfTxRec {
	var pref []*vfTxRec
	for _, r := range m.known {
		if r.rejectedAtLimit && r.removedAfter {
			pref = append(pref, r)
		}
	}
	if len(pref) > 0 && m.intn(3, label+"Pref") > 0 {
		return pref[m.intn(len(pref), label+"PrefIdx")]
	}
	return m.known[m.intn(len(m.known), label)]
}

func (m *vfMachine) step() {
	before := m.e.entries()
	op := m.intn(100, "op")
	if len(m.known) == 0 {
		op = 0
	}
	switch {
	case op < 32:
		if int64(len(before)) >= m.cap && m.fullSubmits >= 1 && len(before) > 0 {
			m.removeTxs(before, []*vfTxRec{m.byHash[string(before[m.intn(len(before), "evict")].Value.Hash())]})
			return
		}
		m.submit(m.newRec(false), before)
	case op < 40:
		if int64(len(before)) >= m.cap && m.fullSubmits >= 1 {
			m.sweep(before)
			return
		}
		m.submit(m.newRec(true), before)
	case op < 54:
		rec := m.pickKnown("resubmit")
		if int64(len(before)) >= m.cap && m.fullSubmits >= 1 && !vfHashSet(before)[string(rec.tx.Hash())] {
			m.sweep(before)
			return
		}
		m.submit(rec, before)
	case op < 61:
		m.addBlock(before)
	case op < 66:
		if len(m.blocks) == 0 {
			m.addBlock(before)
			return
		}
		m.reorg()
	case op < 69:
		m.delBlock(before)
	case op < 79:
		n := 1 + m.intn(3, "nRemove")
		var recs []*vfTxRec
		for i := 0; i < n; i++ {
			if len(before) > 0 && m.intn(2, "removePooled") == 0 {
				recs = append(recs, m.byHash[string(before[m.intn(len(before), "removeIdx")].Value.Hash())])
			} else {
				recs = append(recs, m.known[m.intn(len(m.known), "removeKnown")])
			}
		}
		m.removeTxs(before, recs)
	case op < 84:
		if len(before) == 0 {
			m.sweep(before)
			return
		}
		it := before[m.intn(len(before), "ageIdx")]
		m.e.age(it.Value.Hash())
		m.log("age", "tx", m.byHash[string(it.Value.Hash())].ID)
		lib.Class("age")
		m.after(before)
	case op < 88:
		m.sweep(before)
	default:
		m.query(before)
	}
}

func (m *vfMachine) removeTxs(before []*Item, recs []*vfTxRec) {
	req := &types.TxHashList{}
	var ids []string
	have := vfHashSet(before)
	absent := 0
	for _, r := range recs {
		req.Hashes = append(req.Hashes, r.tx.Hash())
		ids = append(ids, r.ID)
		if !have[string(r.tx.Hash())] {
			absent++
		}
	}
	m.e.call(types.EventDelTxList, req)
	m.log("removeTxs", "txs", ids, "absent", absent)
	lib.Class("removeTxs")
	if absent > 0 {
		lib.Class("removeTxs_with_absent_hash")
	}
	m.after(before)
}

func (m *vfMachine) sweep(before []*Item) {
	m.e.mem.removeExpired() // what the one-minute ticker goroutine calls
	m.log("sweep")
	lib.Class("sweep")
	now := m.after(before)
	if len(now) < len(before) {
		lib.Class("sweep_removed_something")
	}
}

func (m *vfMachine) addBlock(before []*Item) {
	var recs []*vfTxRec
	chosen := map[string]bool{}
	add := func(r *vfTxRec) {
		if !chosen[r.ID] {
			chosen[r.ID] = true
			recs = append(recs, r)
		}
	}
	for i, n := 0, m.intn(4, "blkFromPool"); i < n && len(before) > 0; i++ {
		add(m.byHash[string(before[m.intn(len(before), "blkPoolIdx")].Value.Hash())])
	}
	if m.intn(3, "blkFresh") == 0 {
		add(m.newRec(m.intn(4, "blkFreshGroup") == 0))
	}
	if m.intn(3, "blkKnown") == 0 {
		add(m.known[m.intn(len(m.known), "blkKnownIdx")])
	}
	m.height++
	if m.intn(12, "blkGap") == 0 {
		// a height is skipped (not something a reorganisation produces; the handler accepts any height and the
		// property's clause about added blocks must hold for it all the same); the chain model gets an empty filler
		m.blocks = append(m.blocks, &vfBlockRec{blk: &types.Block{Height: m.height, BlockTime: m.btime}})
		m.height++
		lib.Class("addBlock_skips_a_height")
	}
	m.btime += []int64{0, 1, 5, 60}[m.intn(4, "blkDT")]
	blk := &types.Block{Height: m.height, BlockTime: m.btime}
	var ids []string
	m.e.chain.mu.Lock()
	for _, r := range recs {
		ids = append(ids, r.ID)
		for _, mt := range r.members {
			blk.Txs = append(blk.Txs, mt)
			m.e.chain.onChain[string(mt.Hash())] = true
		}
	}
	m.e.chain.mu.Unlock()
	m.e.chain.setHeader(m.height, m.btime)
	m.blocks = append(m.blocks, &vfBlockRec{blk: blk, recs: recs})
	m.deliverAdd("addBlock", blk, ids)
	if m.intn(10, "blkRepeat") == 0 { // the same block announced once more (its height is now <= the pool's header)
		lib.Class("addBlock_repeated")
		m.deliverAdd("addBlock-again", blk, ids)
	}
}

// deliverAdd sends EventAddBlock and applies the C21 clause "the transactions of an added block are no longer in the
// pool afterwards" (whatever the block's height is relative to the pool's header) plus the bookkeeping invariants.
func (m *vfMachine) deliverAdd(op string, blk *types.Block, ids []string) {
	before := m.e.entries()
	hdr := m.e.mem.GetHeader().GetHeight()
	m.e.cast(types.EventAddBlock, &types.BlockDetail{Block: blk})
	m.log(op, "height", blk.Height, "time", blk.BlockTime, "txs", ids, "poolHeaderBefore", hdr)
	lib.Class("addBlock")
	switch {
	case blk.Height <= hdr:
		lib.Class("addBlock_height_not_above_pool_header")
		for _, it := range before {
			for _, tx := range blk.Txs {
				if bytes.Equal(tx.Hash(), it.Value.Hash()) {
					lib.Class("addBlock_height_not_above_pool_header_with_pooled_tx")
				}
			}
		}
	case blk.Height > hdr+1:
		lib.Class("addBlock_height_beyond_pool_header+1")
	}
	now := vfHashSet(m.after(before))
	for _, tx := range blk.Txs {
		if now[string(tx.Hash())] {
			m.fail("transaction %s of the added block (height %d, pool header was %d, txs %v) is still in the pool", vfHex(tx.Hash()), blk.Height, hdr, ids)
		}
	}
}

// reorg replaces the top d blocks of the fake chain by a new branch of L blocks, as blockchain does: it disconnects
// tip-first (EventDelBlock each, sent on the queue's LOW priority channel) and then connects the new branch upwards
// (EventAddBlock each, HIGH priority). What reaches the pool is therefore any merge of the two sequences that keeps
// each one's order, with the add-blocks tending to overtake; and when the pool handles a del-block it asks the
// blockchain peer for its CURRENT last header, which is that of any later step of the reorganisation. Both are drawn.
// Add-blocks at heights <= the pool's header, ignored del-blocks and header jumps all arise from this.
func (m *vfMachine) reorg() {
	d := 1 + m.intn(vfMin(3, len(m.blocks)), "reorgDepth")
	l := 1 + m.intn(d+1, "reorgLen")
	old := m.blocks[len(m.blocks)-d:]
	base := m.blocks[:len(m.blocks)-d]
	forkT := vfBaseTime
	if len(base) > 0 {
		forkT = base[len(base)-1].blk.BlockTime
	}
	// candidates for the new branch: what the old branch held (the usual case), what is pooled, fresh ones
	var cand []*vfTxRec
	for _, b := range old {
		cand = append(cand, b.recs...)
	}
	for _, it := range m.e.entries() {
		if r := m.byHash[string(it.Value.Hash())]; r != nil {
			cand = append(cand, r, r) // pooled ones twice as likely: they are what the add-block clause is about
		}
	}
	used := map[string]bool{}
	type step struct {
		del        bool
		b          *vfBlockRec
		hdrH, hdrT int64 // the blockchain's last header once it has performed this step
	}
	var steps []step
	for i := d - 1; i >= 0; i-- {
		t := forkT
		if i > 0 {
			t = old[i-1].blk.BlockTime
		}
		steps = append(steps, step{del: true, b: old[i], hdrH: old[i].blk.Height - 1, hdrT: t})
	}
	var fresh []*vfBlockRec
	h, t := m.height-int64(d), forkT
	for j := 0; j < l; j++ {
		h++
		t += []int64{0, 1, 5, 60}[m.intn(4, "reorgDT")]
		nb := &vfBlockRec{blk: &types.Block{Height: h, BlockTime: t}}
		for i, n := 0, m.intn(4, "reorgTxs"); i < n; i++ {
			var r *vfTxRec
			if len(cand) > 0 && m.intn(4, "reorgFresh") > 0 {
				r = cand[m.intn(len(cand), "reorgCand")]
			} else {
				r = m.newRec(false)
			}
			if !used[r.ID] {
				used[r.ID] = true
				nb.recs = append(nb.recs, r)
				nb.blk.Txs = append(nb.blk.Txs, r.members...)
			}
		}
		fresh = append(fresh, nb)
		steps = append(steps, step{b: nb, hdrH: h, hdrT: t})
	}
	lib.Class("reorg")
	nextDel, nextAdd, done := 0, d, 0 // done = steps the blockchain has performed when the pool handles the next event
	for nextDel < d || nextAdd < d+l {
		var idx int
		switch {
		case nextDel == d, nextAdd < d+l && m.intn(3, "reorgAddFirst") > 0:
			idx, nextAdd = nextAdd, nextAdd+1
		default:
			idx, nextDel = nextDel, nextDel+1
		}
		if done < idx+1 {
			done = idx + 1
		}
		if m.intn(3, "reorgLag") == 0 {
			done += m.intn(d+l-done+1, "reorgLagBy")
		}
		st, cur := steps[idx], steps[done-1]
		m.e.chain.setHeader(cur.hdrH, cur.hdrT)
		var ids []string
		for _, r := range st.b.recs {
			ids = append(ids, r.ID)
		}
		if !st.del {
			m.deliverAdd("reorg-addBlock", st.b.blk, ids)
			continue
		}
		before := m.e.entries()
		hdr := m.e.mem.GetHeader().GetHeight()
		m.e.cast(types.EventDelBlock, &types.BlockDetail{Block: st.b.blk})
		m.log("reorg-delBlock", "height", st.b.blk.Height, "txs", ids, "poolHeaderBefore", hdr, "lastHeaderReply", cur.hdrH)
		switch {
		case st.b.blk.Height != hdr:
			lib.Class("delBlock_height_differs_from_pool_header")
		case cur.hdrH != st.b.blk.Height-1:
			lib.Class("delBlock_last_header_reply_is_further_on")
		}
		m.lastAdmitted = nil
		m.after(before)
	}
	// the fake chain is now on the new branch
	m.e.chain.mu.Lock()
	for _, b := range old {
		for _, tx := range b.blk.Txs {
			delete(m.e.chain.onChain, string(tx.Hash()))
		}
	}
	for _, b := range fresh {
		for _, tx := range b.blk.Txs {
			m.e.chain.onChain[string(tx.Hash())] = true
		}
	}
	m.e.chain.mu.Unlock()
	m.blocks = append(append([]*vfBlockRec(nil), base...), fresh...)
	m.height, m.btime = h, t
	m.e.chain.setHeader(h, t)
	if ph := m.e.mem.GetHeader(); ph.Height != h || ph.BlockTime != t {
		lib.Class("reorg_leaves_pool_header_off_the_tip")
	}
}

func vfMin(a, b int) int {
	if a < b {
		return a
	}
	return b
}

func (m *vfMachine) delBlock(before []*Item) {
	if len(m.blocks) == 0 {
		m.query(before)
		return
	}
	b := m.blocks[len(m.blocks)-1]
	m.blocks = m.blocks[:len(m.blocks)-1]
	m.height--
	m.btime = vfBaseTime
	if len(m.blocks) > 0 {
		m.btime = m.blocks[len(m.blocks)-1].blk.BlockTime
	}
	m.e.chain.mu.Lock()
	for _, tx := range b.blk.Txs {
		delete(m.e.chain.onChain, string(tx.Hash()))
	}
	m.e.chain.mu.Unlock()
	m.e.chain.setHeader(m.height, m.btime)
	m.e.cast(types.EventDelBlock, &types.BlockDetail{Block: b.blk})
	m.log("delBlock", "height", b.blk.Height, "txs", len(b.blk.Txs))
	lib.Class("delBlock")
	m.lastAdmitted = nil // several re-pushes: the tail of the latest list is not predicted
	now := m.after(before)
	if len(now) > len(before) {
		lib.Class("delBlock_repushed_something")
	}
}

// query exercises the read paths and compares what they return with the pool contents.
func (m *vfMachine) query(before []*Item) {
	have := vfHashSet(before)
	kind := m.intn(6, "queryKind")
	m.log("query", "kind", kind)
	lib.Class("query")
	switch kind {
	case 0:
		if n := m.e.call(types.EventGetMempoolSize, nil).GetData().(*types.MempoolSize).Size; n != int64(len(before)) {
			m.fail("EventGetMempoolSize=%d, pool holds %d", n, len(before))
		}
	case 1:
		got := m.e.call(types.EventGetLastMempool, nil).GetData().(*types.ReplyTxList).Txs
		want := m.e.mem.GetLatestTx()
		if len(got) != len(want) {
			m.fail("EventGetLastMempool returns %d, GetLatestTx %d", len(got), len(want))
		}
		for i := range got {
			if !bytes.Equal(got[i].Hash(), want[i].Hash()) {
				m.fail("EventGetLastMempool differs from GetLatestTx at %d", i)
			}
		}
	case 2: // by full hash and existence flags, over every transaction the history knows (pooled or not)
		req := &types.ReqTxHashList{}
		ex := &types.ReqCheckTxsExist{}
		for _, r := range m.known {
			req.Hashes = append(req.Hashes, string(r.tx.Hash()))
			ex.TxHashes = append(ex.TxHashes, r.tx.Hash())
		}
		txs := m.e.call(types.EventTxListByHash, req).GetData().(*types.ReplyTxList).Txs
		flags := m.e.call(types.EventCheckTxsExist, ex).GetData().(*types.ReplyCheckTxsExist).ExistFlags
		for i, r := range m.known {
			in := have[string(r.tx.Hash())]
			if (txs[i] != nil) != in || (in && !bytes.Equal(txs[i].Hash(), r.tx.Hash())) {
				m.fail("EventTxListByHash(%s) found=%v, pooled=%v", r.ID, txs[i] != nil, in)
			}
			if flags[i] != in {
				m.fail("EventCheckTxsExist(%s)=%v, pooled=%v", r.ID, flags[i], in)
			}
		}
	case 3:
		req := &types.ReqAddrs{}
		for _, s := range vfSenders {
			req.Addrs = append(req.Addrs, s.addr)
		}
		got := m.e.call(types.EventGetAddrTxs, req).GetData().(*types.TransactionDetails).Txs
		n := 0
		for _, it := range before {
			for _, s := range vfSenders {
				if it.Value.From() == s.addr {
					n++
				}
			}
		}
		if len(got) != n {
			m.fail("EventGetAddrTxs over all senders lists %d, pool holds %d", len(got), n)
		}
		for _, d := range got {
			if !have[string(d.Tx.Hash())] {
				m.fail("EventGetAddrTxs lists a transaction that is not pooled")
			}
		}
	case 4, 5: // producer / rpc listings only ever show pooled transactions, each once (C23 checks the rest)
		var got []*types.Transaction
		if kind == 4 {
			got = m.e.call(types.EventTxList, &types.TxHashList{Count: int64(1 + m.intn(9, "listCount"))}).GetData().(*types.ReplyTxList).Txs
		} else {
			got = m.e.call(types.EventGetMempool, &types.ReqGetMempool{IsAll: m.intn(2, "isAll") == 0}).GetData().(*types.ReplyTxList).Txs
		}
		seen := map[string]bool{}
		for _, tx := range got {
			h := string(tx.Hash())
			if !have[h] || seen[h] {
				m.fail("listing returned a transaction that is not pooled or returned it twice")
			}
			seen[h] = true
		}
	}
	m.after(before)
}

func TestPropBookkeepingSeq(t *testing.T) {
	defer lib.Flush()
	vfInitSenders()
	rapid.Check(t, func(t *rapid.T) {
		lib.Eval()
		m := &vfMachine{t: t, byHash: map[string]*vfTxRec{}, height: vfBaseHeight, btime: vfBaseTime}
		m.cap = int64(rapid.IntRange(1, 8).Draw(t, "cap"))
		m.perAcc = int64(rapid.IntRange(1, 4).Draw(t, "perAcc"))
		m.maxLast = int64(rapid.IntRange(1, 5).Draw(t, "maxLast"))
		m.e = vfNewEnv(vfOpts{cap: m.cap, perAcc: m.perAcc, maxLast: m.maxLast})
		defer m.e.close()
		for i, n := 0, rapid.IntRange(1, 50).Draw(t, "steps"); i < n; i++ {
			m.step()
		}
		if m.nontrivial {
			lib.NonTrivialCase(m.render())
		}
	})
}

// ---------------------------------------------------------------- C21 concurrent variant

const vfFindingGetMempool = "C21-getmempool-unlocked-walk"

// TestKnown_C21GetMempoolWalksUnlocked pins the data race the concurrent variant finds under -race without needing the
// race detector: every mutation of the pool happens under mem.proxyMtx, so a query that reads the pool contents must
// take that lock too, otherwise it can interleave inside a push or a sweep. The probe holds the lock and sends the
// query: a reply that arrives while the lock is still held proves the handler read the pool without it. (No reply
// within the probe window = the handler waits for the lock = no finding; the clock can only ever hide the finding.)
func TestKnown_C21GetMempoolWalksUnlocked(t *testing.T) {
	defer lib.Flush()
	vfInitSenders()
	e := vfNewEnv(vfOpts{cap: 4, perAcc: 4, maxLast: 4})
	defer e.close()
	for i := 0; i < 2; i++ {
		if ok, msg := e.submit(vfBuildTx(e.cfg, vfTxSpec{Sender: i, Nonce: int64(i + 1)})); !ok {
			lib.Inconclusive("fixture: plain transaction rejected: %s", msg)
		}
	}
	probe := func(ty int64, data interface{}, window time.Duration) bool {
		e.mem.proxyMtx.Lock()
		msg := e.cli.NewMessage("mempool", ty, data)
		if err := e.cli.Send(msg, true); err != nil {
			lib.Inconclusive("send failed: %v", err)
		}
		resp, err := e.cli.WaitTimeout(msg, window)
		e.mem.proxyMtx.Unlock()
		if err == queue.ErrQueueTimeout { // blocked on the lock: collect the reply now that it is free
			if _, err := e.cli.WaitTimeout(msg, vfWatchdog); err != nil {
				lib.Inconclusive("no reply after releasing the pool lock: %v", err)
			}
			return false
		}
		return err == nil && resp != nil
	}
	// control: the producer listing takes the lock, so the probe must see it block
	if probe(types.EventTxList, &types.TxHashList{Count: 10}, 300*time.Millisecond) {
		lib.Inconclusive("probe unsound: EventTxList answered while the pool lock was held")
	}
	if probe(types.EventGetMempool, &types.ReqGetMempool{IsAll: true}, 3*time.Second) {
		lib.KnownOrViolation(t, "C21", "TestKnown_C21GetMempoolWalksUnlocked", vfFindingGetMempool,
			map[string]interface{}{"pool": 2, "event": "EventGetMempool", "probe": "sent while the harness holds mem.proxyMtx"},
			"EventGetMempool reads the pool (filterTxList -> cache.Walk) without holding mem.proxyMtx: concurrent with a push or a sweep this is a data race (reported by -race in the concurrent variant)")
	}
}

// vfConcOp is one pre-generated operation of one worker. Transactions are owned by workers: only the owner submits a
// transaction or puts it into a block, so that after the owner's addBlock barrier nobody can legitimately push it
// again (the dup-check-then-push window of a foreign in-flight submission is thereby excluded by construction).
type vfConcOp struct {
	Op   string `json:"op"`
	Txs  []int  `json:"txs,omitempty"` // indices into the case's transaction table
	Kind int    `json:"kind,omitempty"`
}

func TestPropBookkeepingConc(t *testing.T) {
	defer lib.Flush()
	vfInitSenders()
	const workers = 8
	rapid.Check(t, func(t *rapid.T) {
		lib.Eval()
		capacity := int64(rapid.IntRange(2, 8).Draw(t, "cap"))
		perAcc := int64(rapid.IntRange(1, 4).Draw(t, "perAcc"))
		maxLast := int64(rapid.IntRange(1, 5).Draw(t, "maxLast"))
		e := vfNewEnv(vfOpts{cap: capacity, perAcc: perAcc, maxLast: maxLast})
		defer e.close()
		// transaction table: 3 per worker, mixed singles / groups / expiries near the heights the run will reach
		// one hot sender, so that several of its transactions are in the admission pipeline at once while it sits near
		// its limit: the limit must hold at the final push, not only at the early check in the event loop
		gen := &vfMachine{t: t, e: e, byHash: map[string]*vfTxRec{}, height: vfBaseHeight, btime: vfBaseTime, hotBias: true}
		gen.hot = gen.intn(4, "hotSender")
		for len(gen.known) < 3*workers {
			gen.newRec(gen.intn(5, "isGroup") == 0)
		}
		recs := gen.known
		var specs [][]vfTxSpec
		for _, r := range recs {
			specs = append(specs, r.Specs)
		}
		plans := make([][]vfConcOp, workers)
		for w := range plans {
			own := []int{3 * w, 3*w + 1, 3*w + 2}
			for i, n := 0, rapid.IntRange(4, 10).Draw(t, "nops"); i < n; i++ {
				var o vfConcOp
				switch k := gen.intn(20, "cop"); {
				case k < 5:
					o = vfConcOp{Op: "submit", Txs: []int{own[gen.intn(3, "own")]}}
				case k < 8: // all own transactions without waiting for the replies in between
					o = vfConcOp{Op: "burst", Txs: own}
				case k < 11:
					o = vfConcOp{Op: "addBlock", Txs: own[:1+gen.intn(3, "nblk")]}
				case k < 12:
					o = vfConcOp{Op: "delBlock"}
				case k < 15:
					o = vfConcOp{Op: "remove", Txs: []int{gen.intn(len(recs), "rm1"), gen.intn(len(recs), "rm2")}}
				case k < 16:
					o = vfConcOp{Op: "age", Txs: []int{gen.intn(len(recs), "age")}}
				case k < 17:
					o = vfConcOp{Op: "sweep"}
				default:
					o = vfConcOp{Op: "query", Kind: gen.intn(7, "qk")}
					if o.Kind == 6 && lib.Known(vfFindingGetMempool) {
						// known finding: EventGetMempool walks the pool without the pool's lock, which the race detector
						// reports on every run; the class is excluded by construction so that the search goes on behind it
						lib.ExcludedKnown(vfFindingGetMempool)
						o.Kind = 0
					}
				}
				plans[w] = append(plans[w], o)
			}
		}
		rendering := map[string]interface{}{"cap": capacity, "perAcc": perAcc, "maxLast": maxLast, "txs": specs, "plans": plans}

		var (
			height                              = vfBaseHeight
			hmu                                 sync.Mutex // serialises the fake chain's view of its own tip
			firstErr                            atomic.Value
			stop                                = make(chan struct{})
			wg, cg                              sync.WaitGroup
			limitRejects, admitted, blockedLive int64
		)
		report := func(format string, a ...interface{}) { firstErr.CompareAndSwap(nil, fmt.Sprintf(format, a...)) }
		snapshot := func(where string) {
			e.mem.proxyMtx.Lock()
			err := vfCheckBookkeeping(e.mem, capacity, perAcc, maxLast, nil, true)
			e.mem.proxyMtx.Unlock()
			if err != nil {
				report("%s: %v", where, err)
			}
		}
		cg.Add(1)
		go func() { // sampler: every state observable under the pool's lock must satisfy the invariants
			defer cg.Done()
			n := 0
			for {
				select {
				case <-stop:
					lib.ClassN("conc_locked_snapshots", n)
					return
				default:
				}
				snapshot("concurrent snapshot")
				n++
				time.Sleep(50 * time.Microsecond)
			}
		}()
		for w := 0; w < workers; w++ {
			wg.Add(1)
			go func(w int) {
				defer wg.Done()
				cli := e.q.Client()
				call := func(ty int64, data interface{}) *queue.Message {
					msg := cli.NewMessage("mempool", ty, data)
					if err := cli.Send(msg, true); err != nil {
						lib.Inconclusive("send failed: %v", err)
					}
					resp, err := cli.WaitTimeout(msg, vfWatchdog)
					if err == queue.ErrQueueTimeout || resp == nil {
						lib.Inconclusive("no reply to event %d within %v", ty, vfWatchdog)
					}
					return resp
				}
				cast := func(ty int64, data interface{}) {
					if err := cli.Send(cli.NewMessage("mempool", ty, data), true); err != nil {
						lib.Inconclusive("send failed: %v", err)
					}
					call(types.EventGetMempoolSize, nil)
				}
				var myBlocks []*types.Block
				for _, o := range plans[w] {
					switch o.Op {
					case "submit":
						r := call(types.EventTx, recs[o.Txs[0]].tx).GetData().(*types.Reply)
						switch {
						case r.IsOk:
							atomic.AddInt64(&admitted, 1)
						case string(r.Msg) == types.ErrMemFull.Error() || string(r.Msg) == types.ErrManyTx.Error():
							atomic.AddInt64(&limitRejects, 1)
						}
					case "burst":
						var msgs []*queue.Message
						for _, i := range o.Txs {
							m := cli.NewMessage("mempool", types.EventTx, recs[i].tx)
							if err := cli.Send(m, true); err != nil {
								lib.Inconclusive("send failed: %v", err)
							}
							msgs = append(msgs, m)
						}
						for _, m := range msgs {
							resp, err := cli.WaitTimeout(m, vfWatchdog)
							if err == queue.ErrQueueTimeout || resp == nil {
								lib.Inconclusive("no reply to a burst submission within %v", vfWatchdog)
							}
							switch r := resp.GetData().(*types.Reply); {
							case r.IsOk:
								atomic.AddInt64(&admitted, 1)
							case string(r.Msg) == types.ErrMemFull.Error() || string(r.Msg) == types.ErrManyTx.Error():
								atomic.AddInt64(&limitRejects, 1)
							}
						}
					case "addBlock":
						hmu.Lock()
						height++
						blk := &types.Block{Height: height, BlockTime: vfBaseTime + (height - vfBaseHeight)}
						e.chain.mu.Lock()
						for _, i := range o.Txs {
							for _, mt := range recs[i].members {
								blk.Txs = append(blk.Txs, mt)
								e.chain.onChain[string(mt.Hash())] = true
							}
						}
						e.chain.mu.Unlock()
						e.chain.setHeader(blk.Height, blk.BlockTime)
						err := cli.Send(cli.NewMessage("mempool", types.EventAddBlock, &types.BlockDetail{Block: blk}), true)
						hmu.Unlock() // blocks reach the mempool in height order, as from a real blockchain module
						if err != nil {
							lib.Inconclusive("send failed: %v", err)
						}
						call(types.EventGetMempoolSize, nil)
						myBlocks = append(myBlocks, blk)
						// C21: the transactions of an added block are no longer in the pool afterwards
						e.mem.proxyMtx.Lock()
						for _, tx := range blk.Txs {
							if e.mem.cache.Exist(string(tx.Hash())) {
								report("worker %d: transaction %s of added block %d is still in the pool", w, vfHex(tx.Hash()), blk.Height)
							}
						}
						e.mem.proxyMtx.Unlock()
						if len(blk.Txs) > 0 {
							atomic.AddInt64(&blockedLive, 1)
						}
					case "delBlock": // only the chain tip can be rolled back; otherwise the event is a no-op for the pool
						hmu.Lock()
						if n := len(myBlocks); n > 0 && myBlocks[n-1].Height == height {
							blk := myBlocks[n-1]
							myBlocks = myBlocks[:n-1]
							height--
							e.chain.mu.Lock()
							for _, tx := range blk.Txs {
								delete(e.chain.onChain, string(tx.Hash()))
							}
							e.chain.mu.Unlock()
							e.chain.setHeader(height, vfBaseTime+(height-vfBaseHeight))
							cast(types.EventDelBlock, &types.BlockDetail{Block: blk})
						}
						hmu.Unlock()
					case "remove":
						req := &types.TxHashList{}
						for _, i := range o.Txs {
							req.Hashes = append(req.Hashes, recs[i].tx.Hash())
						}
						call(types.EventDelTxList, req)
					case "age":
						e.age(recs[o.Txs[0]].tx.Hash())
					case "sweep":
						e.mem.removeExpired()
					case "query":
						switch o.Kind {
						case 0:
							call(types.EventGetMempoolSize, nil)
						case 1:
							call(types.EventGetLastMempool, nil)
						case 2:
							call(types.EventTxListByHash, &types.ReqTxHashList{Hashes: []string{string(recs[w].tx.Hash())}})
							call(types.EventCheckTxsExist, &types.ReqCheckTxsExist{TxHashes: [][]byte{recs[w].tx.Hash()}})
						case 3:
							call(types.EventGetAddrTxs, &types.ReqAddrs{Addrs: []string{vfSenders[w%len(vfSenders)].addr}})
						case 4:
							call(types.EventTxList, &types.TxHashList{Count: 3})
						case 5:
							call(types.EventGetProperFee, nil)
						case 6:
							call(types.EventGetMempool, &types.ReqGetMempool{IsAll: w%2 == 0})
						}
					}
				}
				cli.Close()
			}(w)
		}
		wg.Wait()
		close(stop)
		cg.Wait()
		if err := vfCheckBookkeeping(e.mem, capacity, perAcc, maxLast, nil, false); err != nil {
			report("after all workers finished: %v", err)
		}
		if msg := firstErr.Load(); msg != nil {
			lib.Violation(t, "C21", "TestPropBookkeepingConc", rendering, "%s", msg)
		}
		lib.ClassN("conc_admitted", int(admitted))
		lib.ClassN("conc_rejected_at_limit", int(limitRejects))
		if limitRejects > 0 && admitted > 0 && blockedLive > 0 {
			lib.NonTrivialCase(rendering)
		}
	})
}
