package mempool

// C33 (mempool entry part): a transaction from a peer can never crash the node.
//
// A peer's transaction travels validateTx / validateBatchTx -> API.SendTx -> queue -> Mempool.eventProcess ->
// eventTx -> checkTxs -> checkTx (all on the mempool's single event goroutine, which has NO recover: a panic there
// kills the node) and only afterwards to the signature check of the pipeline.  So everything eventTx does happens on
// an UNVALIDATED transaction.  The harness calls mem.eventTx (the body of eventProcess' case types.EventTx) itself,
// inside a guard, with transactions that went through the wire encoding; a panic reaching the guard is a violation.
// After every hostile transaction a well-formed signed transaction must still be admitted.
//
// Fixture: the real Mempool of the C21 fixture in this package (vfNewEnv: NewMempool + SimpleQueue on a real queue
// with scripted blockchain / execs / rpc / p2p peers), one per process; generated transactions use fresh nonces.

import (
	"bytes"
	"fmt"
	"strings"
	"sync"
	"testing"

	"github.com/33cn/chain33/types"
	"pgregory.net/rapid"
	"verifharness/lib"
)

const (
	c33KnownEthPub = "C33-mempool-from-empty-eth-pubkey"   // eth address driver slices pubKey[1:] of an empty key
	c33KnownAddrID = "C33-mempool-from-unknown-address-id" // address.MustLoadDriver panics for ids 4..7
)

type c33MpTx struct {
	Sender int    `json:"sender"`
	Sig    string `json:"sig"`           // keep | nil | ethEmptyPub | eth1Byte | unknownAddrID | negTy | hugeTy | emptyPub | longPub | badSig
	AddrID int32  `json:"addrID"`        // for unknownAddrID: 4..7
	To     string `json:"to,omitempty"`  // "" keep | empty | junk | eth
	Fee    string `json:"fee,omitempty"` // "" keep | zero | negative
	Chain  bool   `json:"wrongChain,omitempty"`
	Group  int32  `json:"groupCount,omitempty"`
	Hdr    string `json:"header,omitempty"` // "" none | junk | group (a well-formed group whose LAST member carries the Sig mutation)
}

func c33GenMpTx(t *rapid.T) c33MpTx {
	x := c33MpTx{Sender: rapid.IntRange(0, 6).Draw(t, "sender"),
		Sig:    rapid.SampledFrom([]string{"keep", "nil", "ethEmptyPub", "ethEmptyPub", "eth1Byte", "unknownAddrID", "unknownAddrID", "negTy", "hugeTy", "emptyPub", "longPub", "badSig"}).Draw(t, "sig"),
		AddrID: rapid.Int32Range(4, 7).Draw(t, "addrID")}
	if rapid.IntRange(0, 3).Draw(t, "otherMutation") == 0 {
		x.To = rapid.SampledFrom([]string{"", "empty", "junk", "eth"}).Draw(t, "to")
		x.Fee = rapid.SampledFrom([]string{"", "zero", "negative"}).Draw(t, "fee")
		x.Chain = rapid.IntRange(0, 3).Draw(t, "chain") == 0
	}
	switch rapid.IntRange(0, 5).Draw(t, "groupShape") {
	case 0:
		x.Hdr, x.Group = "group", 2
	case 1:
		x.Hdr, x.Group = "junk", rapid.SampledFrom([]int32{2, 20}).Draw(t, "gc")
	case 2:
		x.Group = rapid.SampledFrom([]int32{1, 21, -1, 1 << 30, 2}).Draw(t, "gc")
	}
	return x
}

func c33MutateSig(tx *types.Transaction, x c33MpTx) {
	switch x.Sig {
	case "nil":
		tx.Signature = nil
	case "ethEmptyPub":
		tx.Signature = &types.Signature{Ty: vfEthSignTy, Signature: tx.Signature.Signature}
	case "eth1Byte":
		tx.Signature = &types.Signature{Ty: vfEthSignTy, Pubkey: []byte{4}, Signature: tx.Signature.Signature}
	case "unknownAddrID":
		tx.Signature.Ty = x.AddrID<<12 | types.SECP256K1
	case "negTy":
		tx.Signature.Ty = -5
	case "hugeTy":
		tx.Signature.Ty = 1<<31 - 1
	case "emptyPub":
		tx.Signature.Pubkey = nil
	case "longPub":
		tx.Signature.Pubkey = bytes.Repeat([]byte{3}, 4000)
	case "badSig":
		tx.Signature.Signature = []byte("not a signature")
	}
}

var c33Nonce int64 = 1 << 40

func c33BuildMpTx(cfg *types.Chain33Config, x c33MpTx) *types.Transaction {
	c33Nonce++
	var tx *types.Transaction
	if x.Hdr == "group" {
		head, members := vfBuildGroup(cfg, []vfTxSpec{{Sender: x.Sender, Nonce: c33Nonce, To: 8}, {Sender: (x.Sender + 1) % 7, Nonce: c33Nonce, To: 9}})
		c33MutateSig(members[len(members)-1], x)
		tx = (&types.Transactions{Txs: members}).Tx() // pool form: the head carrying the (now mutated) members
		tx.Signature = head.Signature
	} else {
		tx = vfBuildTx(cfg, vfTxSpec{Sender: x.Sender, Nonce: c33Nonce, To: 8})
		c33MutateSig(tx, x)
		tx.GroupCount = x.Group
		if x.Hdr == "junk" {
			tx.Header, tx.Next = []byte{0x0a, 0xff, 0xff, 0x01}, []byte("next")
		}
	}
	switch x.To {
	case "empty":
		tx.To = ""
	case "junk":
		tx.To = "not-an-address"
	case "eth":
		tx.To = "0xd83b69c56834e85e023b1738e69bfa2f0dd52905"
	}
	switch x.Fee {
	case "zero":
		tx.Fee = 0
	case "negative":
		tx.Fee = -1
	}
	if x.Chain {
		tx.ChainID = cfg.GetChainID() + 7
	}
	// through the wire: what arrives at the mempool is what a peer's bytes decode to
	var wire types.Transaction
	if err := types.Decode(types.Encode(tx), &wire); err != nil {
		lib.Inconclusive("round trip of a generated transaction failed: %v", err)
	}
	return &wire
}

// c33Hostile evaluates the exact input signatures of the two listed findings on a transaction and its group members.
func c33Hostile(tx *types.Transaction) (ethEmpty, unknownID bool) {
	all := []*types.Transaction{tx}
	if g, err := tx.GetTxGroup(); err == nil && g != nil {
		all = append(all, g.GetTxs()...)
	}
	for _, t := range all {
		switch id := types.ExtractAddressID(t.GetSignature().GetTy()); {
		case id == 2 && len(t.GetSignature().GetPubkey()) == 0:
			ethEmpty = true
		case id > 3:
			unknownID = true
		}
	}
	return
}

var (
	c33MpOnce sync.Once
	c33MpEnv  *vfEnv
)

func c33Mp() *vfEnv {
	c33MpOnce.Do(func() {
		vfInitSenders()
		c33MpEnv = vfNewEnv(vfOpts{cap: 1 << 20, perAcc: 1 << 20, maxLast: 10})
	})
	return c33MpEnv
}

// c33EventTx runs the mempool's EventTx case body on tx inside the guard and returns the reply (nil after a tolerated
// known panic).
func c33EventTx(t lib.TB, test string, c interface{}, e *vfEnv, tx *types.Transaction) *types.Reply {
	msg := e.cli.NewMessage("mempool", types.EventTx, tx)
	ethEmpty, unknownID := c33Hostile(tx)
	panicked := false
	func() {
		defer func() {
			r := recover()
			if r == nil {
				return
			}
			panicked = true
			text := fmt.Sprint(r)
			switch {
			case ethEmpty && lib.Known(c33KnownEthPub) && strings.Contains(text, "slice bounds out of range"):
				lib.ExcludedKnown(c33KnownEthPub)
			case unknownID && lib.Known(c33KnownAddrID) && strings.Contains(text, "unknown address driver"):
				lib.ExcludedKnown(c33KnownAddrID)
			default:
				lib.Violation(t, "C33", test, c, "panic escaped Mempool.eventTx, which runs on the mempool's event goroutine without a recover (the node would die): %v", r)
			}
		}()
		e.mem.eventTx(msg)
	}()
	if panicked {
		return nil
	}
	resp, err := e.cli.WaitTimeout(msg, vfWatchdog)
	if err != nil || resp == nil {
		lib.Inconclusive("no reply to EventTx within %v (%v)", vfWatchdog, err)
	}
	r, ok := resp.GetData().(*types.Reply)
	if !ok {
		lib.Violation(t, "C33", test, c, "EventTx was answered with %T instead of a reply", resp.GetData())
	}
	return r
}

func c33RunMp(t lib.TB, test string, x c33MpTx) {
	e := c33Mp()
	tx := c33BuildMpTx(e.cfg, x)
	lib.Class("sig_" + x.Sig)
	r := c33EventTx(t, test, x, e, tx)
	switch {
	case r == nil:
		lib.Class("tolerated_known_panic")
	case r.IsOk:
		lib.Class("admitted")
		if x.Hdr == "group" && x.Sig == "keep" {
			// (mutations of recipient / fee / chain id touch only the wrapper of a group, whose own fields the pool does not
			// compare with the first member: admitted, recorded, not judged here)
			lib.Class("admitted_group")
		} else if x.Sig != "keep" || x.To != "" || x.Fee != "" || x.Chain || x.Group != 0 {
			lib.Violation(t, "C33", test, x, "a malformed transaction (mutation %+v) was admitted to the pool instead of being rejected", x)
		}
	default:
		lib.Class("rejected")
	}
	// a well-formed transaction is still admitted afterwards
	c33Nonce++
	probe := vfBuildTx(e.cfg, vfTxSpec{Sender: vfFiller, Nonce: c33Nonce, To: 9})
	if pr := c33EventTx(t, test, x, e, probe); pr == nil || !pr.IsOk {
		lib.Violation(t, "C33", test, x, "after the peer's transaction a well-formed signed transaction was not admitted: %v", pr)
	}
}

// Non-trivial: the only defect of the transaction is in its signature field (recipient, fee, chain id and group
// structure are those of an admissible transaction), so it passes the checks that precede the sender computation.
func TestPropPeerTxMempool(t *testing.T) {
	defer lib.Flush()
	rapid.Check(t, func(t *rapid.T) {
		x := c33GenMpTx(t)
		lib.Eval()
		c33RunMp(t, "TestPropPeerTxMempool", x)
		if x.Sig != "keep" && x.To == "" && x.Fee == "" && !x.Chain && (x.Group == 0 || x.Hdr == "group") {
			lib.NonTrivialCase(x)
		}
	})
}

func c33Pinned(t *testing.T, test, id string, x c33MpTx, what string) {
	defer lib.Flush()
	e := c33Mp()
	tx := c33BuildMpTx(e.cfg, x)
	var pv interface{}
	msg := e.cli.NewMessage("mempool", types.EventTx, tx)
	func() {
		defer func() { pv = recover() }()
		e.mem.eventTx(msg)
	}()
	if pv != nil {
		lib.KnownOrViolation(t, "C33", test, id, x, fmt.Sprintf("%s: %v", what, pv))
	}
}

// An otherwise admissible transaction whose signature says "eth address" (address id 2) and carries no public key:
// checkTx computes tx.From() before any signature check; the eth driver evaluates pubKey[1:].
func TestKnown_MempoolEthEmptyPubkey(t *testing.T) {
	c33Pinned(t, "TestKnown_MempoolEthEmptyPubkey", c33KnownEthPub, c33MpTx{Sender: 0, Sig: "ethEmptyPub"},
		"Mempool.eventTx (event goroutine, no recover) panics in tx.From() for an eth-typed signature with an empty public key")
}

// Same path, signature type whose address-id bits name no registered driver (4..7): address.MustLoadDriver panics.
func TestKnown_MempoolUnknownAddressID(t *testing.T) {
	c33Pinned(t, "TestKnown_MempoolUnknownAddressID", c33KnownAddrID, c33MpTx{Sender: 0, Sig: "unknownAddrID", AddrID: 5},
		"Mempool.eventTx (event goroutine, no recover) panics in tx.From() for a signature type with an unregistered address id")
}
