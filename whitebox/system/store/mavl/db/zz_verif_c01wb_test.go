package mavl

import (
	"bytes"
	"fmt"
	"sort"
	"testing"

	dbm "github.com/33cn/chain33/common/db"
	"pgregory.net/rapid"
	"verifharness/lib"
)

// White-box part of C01: the shape invariants that make the versioned map work, checked on every node of
// every version after every batch, both on the freshly built (unsaved) tree and on the tree reloaded by root
// hash: leaf height 0 / size 1; inner height = 1+max(children), size = sum(children), balance in {-1,0,1};
// inner key = smallest key of its right subtree and greater than every key on the left; in-order leaves equal
// the model's sorted keys.  Older versions are re-walked after later batches (copy-on-write).

type c01wbWalk struct {
	t     *Tree
	keys  [][]byte
	nodes int
	err   string
}

// walk returns (height, size, minKey, maxKey) of the subtree.
func (w *c01wbWalk) walk(n *Node) (int32, int32, []byte, []byte) {
	w.nodes++
	if n.height == 0 {
		if n.size != 1 && w.err == "" {
			w.err = fmt.Sprintf("leaf %x has size %d", n.key, n.size)
		}
		w.keys = append(w.keys, n.key)
		return 0, 1, n.key, n.key
	}
	hl, sl, minL, maxL := w.walk(n.getLeftNode(w.t))
	hr, sr, minR, maxR := w.walk(n.getRightNode(w.t))
	h := hl
	if hr > h {
		h = hr
	}
	if w.err == "" {
		switch {
		case n.height != h+1:
			w.err = fmt.Sprintf("inner %x: height %d, children %d/%d", n.key, n.height, hl, hr)
		case n.size != sl+sr:
			w.err = fmt.Sprintf("inner %x: size %d, children %d+%d", n.key, n.size, sl, sr)
		case hl-hr > 1 || hr-hl > 1:
			w.err = fmt.Sprintf("inner %x: unbalanced, child heights %d/%d", n.key, hl, hr)
		case !bytes.Equal(n.key, minR):
			w.err = fmt.Sprintf("inner key %x is not the smallest key %x of its right subtree", n.key, minR)
		case bytes.Compare(maxL, n.key) >= 0:
			w.err = fmt.Sprintf("inner key %x not above left subtree max %x", n.key, maxL)
		}
	}
	return n.height, n.size, minL, maxR
}

func c01wbCheck(t *rapid.T, tr *Tree, what string, model map[string]bool) {
	if tr.root == nil {
		if len(model) != 0 {
			lib.Violation(t, "C01", "TestPropC01AVLStructure", nil, "%s: empty tree, model has %d keys", what, len(model))
		}
		return
	}
	w := &c01wbWalk{t: tr}
	_, size, _, _ := w.walk(tr.root)
	if w.err != "" {
		lib.Violation(t, "C01", "TestPropC01AVLStructure", nil, "%s: %s", what, w.err)
	}
	want := make([]string, 0, len(model))
	for k := range model {
		want = append(want, k)
	}
	sort.Strings(want)
	if int(size) != len(want) || len(w.keys) != len(want) {
		lib.Violation(t, "C01", "TestPropC01AVLStructure", nil, "%s: %d leaves (root size %d), model %d", what, len(w.keys), size, len(want))
	}
	for i, k := range w.keys {
		if string(k) != want[i] {
			lib.Violation(t, "C01", "TestPropC01AVLStructure", nil, "%s: leaf %d is %x, model %x", what, i, k, want[i])
		}
	}
}

func TestPropC01AVLStructure(t *testing.T) {
	defer lib.Flush()
	rapid.Check(t, func(t *rapid.T) {
		lib.Eval()
		cfg := &TreeConfig{EnableMavlPrefix: rapid.Bool().Draw(t, "prefix"), EnableMemTree: rapid.Bool().Draw(t, "memTree"), EnableMemVal: rapid.Bool().Draw(t, "memVal")}
		// process-global caches: small fresh ones per case (white-box access avoids InitGlobalMem's 500k-slot map)
		memTree, tkCloseCache, maxBlockHeight = nil, nil, 0
		if cfg.EnableMemTree {
			memTree, tkCloseCache = NewTreeMap(64), NewTreeARC(16)
		}
		defer func() { memTree, tkCloseCache = nil, nil }()
		db, err := dbm.NewGoMemDB("c01wb", "", 0)
		if err != nil {
			lib.Inconclusive("memdb: %v", err)
		}
		type ver struct {
			root  []byte
			model map[string]bool
		}
		vers := []ver{{nil, map[string]bool{}}}
		nb := rapid.IntRange(1, 8).Draw(t, "batches")
		var trace []string
		total, rotForcing := 0, 0
		for b := 0; b < nb; b++ {
			parent := vers[len(vers)-1]
			if rapid.IntRange(0, 3).Draw(t, "fork") == 0 {
				parent = vers[rapid.IntRange(0, len(vers)-1).Draw(t, "parent")]
			}
			tr := NewTree(db, true, cfg)
			tr.SetBlockHeight(int64(b + 1))
			if err := tr.Load(parent.root); err != nil {
				lib.Violation(t, "C01", "TestPropC01AVLStructure", nil, "Load(%x): %v", parent.root, err)
			}
			model := map[string]bool{}
			for k := range parent.model {
				model[k] = true
			}
			n := rapid.IntRange(1, 60).Draw(t, "n")
			pattern := rapid.SampledFrom([]string{"asc", "desc", "rand", "rand"}).Draw(t, "pattern")
			base := rapid.IntRange(0, 400).Draw(t, "base")
			for i := 0; i < n; i++ {
				var k []byte
				switch pattern {
				case "asc": // sorted runs are the worst case for rotations
					k = []byte(fmt.Sprintf("k%04d", base+i))
				case "desc":
					k = []byte(fmt.Sprintf("k%04d", base+n-i))
				default:
					k = rapid.SliceOfN(rapid.SampledFrom([]byte{0, 'a', 'k', '0', '1', 0xff}), 0, 5).Draw(t, "k")
				}
				tr.Set(k, []byte{byte(b), byte(i)})
				model[string(k)] = true
				trace = append(trace, string(k))
			}
			if pattern != "rand" && n >= 4 {
				rotForcing++
			}
			lib.Class("pattern_" + pattern)
			c01wbCheck(t, tr, fmt.Sprintf("batch %d before save", b), model)
			root := tr.Save()
			trace = append(trace, "|")
			vers = append(vers, ver{root, model})
			total += n
			// every version so far, reloaded by root hash
			for vi, v := range vers {
				lt := NewTree(db, true, cfg)
				if err := lt.Load(v.root); err != nil {
					lib.Violation(t, "C01", "TestPropC01AVLStructure", nil, "after batch %d: Load(version %d, %x): %v", b, vi, v.root, err)
				}
				c01wbCheck(t, lt, fmt.Sprintf("after batch %d: version %d reloaded", b, vi), v.model)
			}
		}
		// non-trivial: >= 2 versions, >= 16 inserted keys and at least one sorted run (forces rotations)
		if nb >= 2 && total >= 16 && rotForcing > 0 {
			lib.NonTrivial(lib.Fingerprint(cfg.EnableMavlPrefix, cfg.EnableMemTree, cfg.EnableMemVal, trace))
			if lib.SampleCount() < 2 {
				lib.Sample(map[string]interface{}{"whitebox": "TestPropC01AVLStructure", "batches": nb, "keys": total, "sorted_runs": rotForcing, "versions": len(vers)})
			}
		}
	})
}
