package mavl

// C05 white-box unit: generated commit / rollback / prune histories against the tree + pruning code, with
// access to the package globals so that (a) every history starts like a freshly started node
// (maxBlockHeight, secLvlPruningH, quit, pruningState reset; fresh database), (b) the background trigger of
// Tree.Save can be exercised deterministically (wait on the package WaitGroup instead of ClosePrune, which
// would abort the run and disable pruning for the rest of the process), (c) in sync mode the trigger is held
// off the way the repository's own TestPruningTree does it (setPruning(pruningStateStart) before Save).
// Generator, model and oracle live in verifharness/c05_prune/model.

import (
	"fmt"
	"os"
	"path/filepath"
	"testing"

	dbm "github.com/33cn/chain33/common/db"
	l15 "github.com/33cn/chain33/common/log/log15"
	"github.com/33cn/chain33/types"
	lru "github.com/hashicorp/golang-lru"
	"pgregory.net/rapid"
	"verifharness/c05_prune/model"
	"verifharness/lib"
)

// c05NoCache hides the node cache of the database handle: a read through it sees exactly what is persisted,
// i.e. what the node would see after a restart.
type c05NoCache struct{ dbm.DB }

func (c05NoCache) GetCache() *lru.ARCCache { return nil }

// c05NoSync turns every batch into a non-fsync batch: durability is not the subject here and the prune
// routine's sync batches cost ~10 ms each on disk.
type c05NoSync struct{ dbm.DB }

func (d c05NoSync) NewBatch(bool) dbm.Batch { return d.DB.NewBatch(false) }

type c05Backend struct {
	db  dbm.DB
	cfg *TreeConfig
	bg  bool
	dir string
}

var c05Seq int

func c05New(c model.Case) *c05Backend {
	l15.Root().SetHandler(l15.DiscardHandler())
	// a freshly started node: no pruning in flight, heights re-read from the (empty) database
	wg.Wait()
	heightMtx.Lock()
	maxBlockHeight = 0
	heightMtx.Unlock()
	secLvlPruningH = 0
	quit = false
	setPruning(pruningStateEnd)
	b := &c05Backend{bg: c.Mode == "bg", cfg: &TreeConfig{EnableMavlPrefix: true, EnableMavlPrune: true, PruneHeight: c.PH}}
	if c.DB == "leveldb" {
		base := os.Getenv("C05_DBDIR") // optional tmpfs directory (3x faster); falls back to the run's scratch dir
		if st, err := os.Stat(base); base == "" || err != nil || !st.IsDir() {
			if base = os.Getenv("VERIF_WORK"); base == "" {
				base = os.TempDir()
			}
		}
		c05Seq++
		b.dir = filepath.Join(base, fmt.Sprintf("c05wb-%d-%d", os.Getpid(), c05Seq))
		b.db = c05NoSync{dbm.NewDB("store", "leveldb", b.dir, 16)}
	} else {
		b.db, _ = dbm.NewGoMemDB("store", "", 0)
	}
	b.db.SetCacheSize(102400) // as system/store.NewBaseStore does
	return b
}

func (b *c05Backend) Close() {
	wg.Wait()
	b.db.Close()
	if b.dir != "" {
		os.RemoveAll(b.dir)
	}
}

// Commit is Store.MemSet followed by Store.Commit for a non-empty KV set.
func (b *c05Backend) Commit(parent []byte, height int64, kvs []model.KV) (root []byte, err error) {
	defer func() {
		if r := recover(); r != nil {
			root, err = nil, model.ClassifyCommitPanic(r)
		}
	}()
	tree := NewTree(b.db, true, b.cfg)
	tree.SetBlockHeight(height)
	if err := tree.Load(parent); err != nil {
		return nil, err
	}
	for _, kv := range kvs {
		tree.Set([]byte(kv.K), []byte(kv.V))
	}
	hash := tree.Hash()
	if !b.bg {
		setPruning(pruningStateStart) // keep Save's background trigger off in sync mode
	}
	if saved := tree.Save(); saved == nil {
		return nil, fmt.Errorf("Tree.Save returned nil")
	}
	wg.Wait() // bg mode: the pruning goroutine Save may have started runs to completion here
	return hash, nil
}

func (b *c05Backend) Discard(parent []byte, height int64, kvs []model.KV) {
	tree := NewTree(b.db, true, b.cfg)
	tree.SetBlockHeight(height)
	if tree.Load(parent) == nil {
		for _, kv := range kvs {
			tree.Set([]byte(kv.K), []byte(kv.V))
		}
		tree.Hash()
	}
}

func (b *c05Backend) Empty(parent []byte, from, n int64) {} // Store.MemSet/Commit do not touch the tree for an empty KV set

func (b *c05Backend) Prune(cur int64) { PruningTree(b.db, cur, b.cfg) }

func (b *c05Backend) Read(root []byte, keys []string) (vals []string, failure string) {
	ks := make([][]byte, len(keys))
	for i, k := range keys {
		ks[i] = []byte(k)
	}
	read := func(db dbm.DB, how string) (out []string, failure string) {
		defer func() {
			if r := recover(); r != nil {
				failure = fmt.Sprintf("%s: panic: %v", how, r)
			}
		}()
		got, err := GetKVPair(db, &types.StoreGet{StateHash: root, Keys: ks}, b.cfg)
		if err != nil {
			return nil, fmt.Sprintf("%s: loading the root: %v", how, err)
		}
		for _, v := range got {
			out = append(out, string(v))
		}
		return out, ""
	}
	vals, failure = read(b.db, "GetKVPair")
	if failure != "" {
		return
	}
	direct, failure := read(c05NoCache{b.db}, "GetKVPair without node cache (what a restarted node reads)")
	if failure != "" {
		return nil, failure
	}
	for i := range direct {
		if direct[i] != vals[i] {
			return nil, fmt.Sprintf("key %q reads %q through the node cache and %q from the database", keys[i], vals[i], direct[i])
		}
	}
	return vals, ""
}

func (b *c05Backend) Keys() (out []string) {
	it := b.db.Iterator(nil, types.EmptyValue, false)
	defer it.Close()
	for it.Rewind(); it.Valid(); it.Next() {
		out = append(out, string(it.Key()))
	}
	return
}

func TestPropPruneKeepsLiveState(t *testing.T) {
	defer lib.Flush()
	opt := model.GenOpt{Modes: []string{"sync", "bg"}, Jumps: true, MaxOps: 40,
		AvoidRoot: lib.Known(model.FindRoot), AvoidStale: lib.Known(model.FindStale), AvoidLeaf: lib.Known(model.FindLeaf)}
	rapid.Check(t, func(t *rapid.T) {
		c := model.Gen(t, opt)
		lib.Eval()
		be := c05New(c)
		defer be.Close()
		if model.Run(t, "TestPropPruneKeepsLiveState", c, be) {
			lib.NonTrivialCase(c)
		}
	})
}

func c05Pinned(t *testing.T, test, id, what string, c model.Case) {
	defer lib.Flush()
	be := c05New(c)
	defer be.Close()
	if msg := model.Evaluate(test, c, be); msg != "" {
		if !lib.Known(id) {
			what += " [" + msg + "]"
		}
		lib.KnownOrViolation(t, model.Prop, test, id, c, what)
	}
}

func TestKnown_SharedRootRecord(t *testing.T) {
	c05Pinned(t, "TestKnown_SharedRootRecord", model.FindRoot, model.WhatRoot, model.PinnedRoot)
}

func TestKnown_StaleIndexEmptyRecommit(t *testing.T) {
	c05Pinned(t, "TestKnown_StaleIndexEmptyRecommit", model.FindStale, model.WhatStale, model.PinnedStale)
}

func TestKnown_RootLeafIndexNotCleaned(t *testing.T) {
	c05Pinned(t, "TestKnown_RootLeafIndexNotCleaned", model.FindLeaf, model.WhatLeaf, model.PinnedLeaf)
}
