package broadcast

// C33 (broadcast part): peer input can never crash the node or permanently stop a background loop.
//
// Production call graph (read from broadcast.go / pubsub.go / validate.go / lightbroadcast.go and
// go-libp2p-pubsub v0.9.3, which has no recover of its own):
//
//   path                                           runs under a recover in production?
//   validateTx / validateBatchTx / validateBlock / validatePeer  (gossipsub inline validators)     NO
//   handleSubMsg worker: decodeMsg (snappy + protobuf)                                              NO
//        -> handleBroadcastReceive (full block, light block, peer message)                          yes (own defer)
//   ltBroadcast.pendBlockLoop  -> buildPendList -> buildPendBlock                                    NO
//   ltBroadcast.blockRequestLoop -> handleBlockReqList -> handleBlockReq                             NO
//   validator.manageDeniedPeer -> handleBroadcastReply                                               NO
//
// Every step of a generated case runs the production function for that path inside the harness' guard.  A panic that
// reaches the guard escaped a path that production runs WITHOUT a recover, i.e. it would have killed the node: violation.
// Panics caught by handleBroadcastReceive's own recover are counted (log record "handleReceive_Panic") and the case goes
// on; at the end of every case well-formed messages (a full block, a complete light block, a servable block request)
// must still be processed.  Inputs reach the code as BYTES (snappy(protobuf)) through the same decoders as on the wire,
// so only values a peer can actually deliver are generated (e.g. no nil entries inside repeated fields).

import (
	"bytes"
	"container/list"
	"encoding/binary"
	"encoding/hex"
	"fmt"
	"runtime/debug"
	"strings"
	"sync/atomic"
	"testing"
	"time"

	"github.com/33cn/chain33/common/log/log15"
	"github.com/33cn/chain33/queue"
	"github.com/33cn/chain33/types"
	"github.com/golang/snappy"
	ps "github.com/libp2p/go-libp2p-pubsub"
	"github.com/libp2p/go-libp2p/core/peer"
	"pgregory.net/rapid"
	"verifharness/lib"
)

const (
	c33KnownOverrun = "C33-pendloop-group-overrun"     // un-recovered index panic in pendBlockLoop (group expansion past the slice end)
	c33KnownBomb    = "C33-ltblock-txcount-allocation" // allocation sized by the peer-chosen header.txCount
	c33KnownWindow  = "C33-block-height-poisons-recv-window"
	c33BigCount     = int64(1) << 18 // "large" TxCount that is still safe to allocate in-process (32 B per slot)
	c33BombCount    = int64(1) << 44 // 128 TiB of pointers: below Go's makeslice limit, above any address space
	c33MaxSnappy    = 1 << 24        // largest declared snappy length the in-process tests let through
)

// ---------------------------------------------------------------- case description

type c33Ref struct {
	K string `json:"k"` // miner | s (single I) | g (group I, member J; J==0 is the head) | junk (variant I)
	I int    `json:"i,omitempty"`
	J int    `json:"j,omitempty"`
}

type c33Tx struct {
	Exec  int   `json:"exec,omitempty"`
	To    int   `json:"to,omitempty"`
	Fee   int64 `json:"fee,omitempty"`
	Group int32 `json:"groupCount,omitempty"`
	Hdr   int   `json:"header,omitempty"` // 0 nil, 1 garbage, 2 encoded group
	Sig   int   `json:"sig,omitempty"`    // 0 nil, 1 empty signature, 2 eth id + empty pubkey, 3 unknown address id, 4 long pubkey
	Seed  int   `json:"seed,omitempty"`
}

type c33Step struct {
	Op string `json:"op"` // lb | pool | pass | tip | peermsg | block | tx | batch | raw | reply | fb | sweep
	// lb: a light block as the peer builds it
	Height    int64    `json:"height,omitempty"`
	TxCount   int64    `json:"txCount,omitempty"`
	NilHeader bool     `json:"nilHeader,omitempty"`
	NilMiner  bool     `json:"nilMiner,omitempty"`
	Hashes    []c33Ref `json:"hashes,omitempty"`
	From      int      `json:"from,omitempty"`
	// pool: units that enter the pool now (K = s, or g with J ignored)
	Add []c33Ref `json:"add,omitempty"`
	// peermsg
	MsgID int32  `json:"msgID,omitempty"`
	Body  string `json:"body,omitempty"` // reqint | block | junk | empty
	// block
	NTx int `json:"ntx,omitempty"`
	// tx / batch
	Txs []c33Tx `json:"txs,omitempty"`
	// fb: blocks of one publishing peer with the blockchain module's verdict on each (a accept, r reject, i reject with an
	// error the protocol ignores); Via block = full-block topic, resp = block responses on the peer topic (no validator);
	// Each = one feedback pass after every block instead of one pass after the batch (verdicts for blocks in flight)
	Verdicts string `json:"verdicts,omitempty"`
	Via      string `json:"via,omitempty"`
	Each     bool   `json:"each,omitempty"`
	// raw
	Topic int    `json:"topic,omitempty"`
	Kind  string `json:"kind,omitempty"`
	Seed  int    `json:"seed,omitempty"`
}

type c33Case struct {
	Salt   int       `json:"salt"`
	GSizes []int     `json:"groupSizes"` // sizes of the three candidate groups
	Steps  []c33Step `json:"steps"`
}

const c33Singles = 6

var c33Junk = []string{"", "zz", "0000000000", strings.Repeat("ab", 200), "häsh"}
var c33Topics = []string{psTxTopic, psBatchTxTopic, psBlockTopic, psLtBlockTopic, "peer"}

// ---------------------------------------------------------------- material of a case

type c33World struct {
	f       *vfFix
	miner   *types.Transaction
	singles []*types.Transaction
	groups  []*types.Transactions
}

func c33NewWorld(f *vfFix, salt int, gsizes []int) *c33World {
	w := &c33World{f: f, miner: vfTx(fmt.Sprintf("c33-miner-%d", salt), 0)}
	for i := 0; i < c33Singles; i++ {
		w.singles = append(w.singles, vfTx(fmt.Sprintf("c33-s-%d-%d", salt, i), 1000000))
	}
	for gi, sz := range gsizes {
		var g []*types.Transaction
		for j := 0; j < sz; j++ {
			g = append(g, vfTx(fmt.Sprintf("c33-g-%d-%d-%d", salt, gi, j), 1000000))
		}
		grp, err := types.CreateTxGroup(g, f.cfg.GetMinTxFeeRate())
		if err != nil {
			lib.Inconclusive("CreateTxGroup: %v", err)
		}
		w.groups = append(w.groups, grp)
	}
	return w
}

func (w *c33World) tx(r c33Ref) *types.Transaction {
	switch r.K {
	case "miner":
		return w.miner
	case "s":
		return w.singles[r.I%len(w.singles)]
	case "g":
		g := w.groups[r.I%len(w.groups)]
		return g.Txs[r.J%len(g.Txs)]
	}
	return nil
}

func (w *c33World) shortHash(r c33Ref) string {
	if r.K == "junk" {
		return c33Junk[r.I%len(c33Junk)]
	}
	return types.CalcTxShortHash(w.tx(r).Hash())
}

// poolForm is what the mempool stores: the transaction itself, or for a group the head carrying the encoded group.
func (w *c33World) poolForm(r c33Ref) *types.Transaction {
	if r.K == "g" {
		return w.groups[r.I%len(w.groups)].Tx()
	}
	return w.tx(r)
}

// ---------------------------------------------------------------- generator

func c33GenHashes(t *rapid.T, c *c33Case) []c33Ref {
	// honest layout: miner, then units (singles / whole groups) in drawn order
	refs := []c33Ref{{K: "miner"}}
	for _, u := range rapid.SliceOfN(rapid.IntRange(0, c33Singles+2), 0, 6).Draw(t, "layout") {
		if u < c33Singles {
			refs = append(refs, c33Ref{K: "s", I: u})
		} else {
			g := u - c33Singles
			for j := 0; j < c.GSizes[g]; j++ {
				refs = append(refs, c33Ref{K: "g", I: g, J: j})
			}
		}
	}
	switch rapid.SampledFrom([]string{"honest", "honest", "headAt", "headAt", "headAt", "truncate", "extend", "junk", "empty", "dup"}).Draw(t, "hashMutation") {
	case "headAt": // a group head at a drawn index (every index, so expansion can run past the end)
		i := rapid.IntRange(0, len(refs)-1).Draw(t, "at")
		refs[i] = c33Ref{K: "g", I: rapid.IntRange(0, 2).Draw(t, "grp")}
	case "truncate":
		refs = refs[:rapid.IntRange(0, len(refs)-1).Draw(t, "keep")]
	case "extend":
		for k := rapid.IntRange(1, 3).Draw(t, "extra"); k > 0; k-- {
			refs = append(refs, c33Ref{K: "s", I: rapid.IntRange(0, c33Singles-1).Draw(t, "x")})
		}
	case "junk":
		i := rapid.IntRange(0, len(refs)-1).Draw(t, "at")
		refs[i] = c33Ref{K: "junk", I: rapid.IntRange(0, len(c33Junk)-1).Draw(t, "j")}
	case "empty":
		refs = nil
	case "dup":
		refs = append(refs, refs[len(refs)-1])
	}
	return refs
}

func c33GenTx(t *rapid.T) c33Tx {
	return c33Tx{Exec: rapid.IntRange(0, 2).Draw(t, "exec"), To: rapid.IntRange(0, 2).Draw(t, "to"),
		Fee:   rapid.SampledFrom([]int64{0, 1000000, -1, 1 << 62}).Draw(t, "fee"),
		Group: rapid.SampledFrom([]int32{0, 0, 1, 2, 20, 21, -1, 1 << 30}).Draw(t, "groupCount"),
		Hdr:   rapid.IntRange(0, 2).Draw(t, "hdr"), Sig: rapid.IntRange(0, 4).Draw(t, "sig"), Seed: rapid.IntRange(0, 1000).Draw(t, "seed")}
}

func c33Gen(t *rapid.T) c33Case {
	c := c33Case{Salt: rapid.IntRange(0, 1<<20).Draw(t, "salt")}
	for i := 0; i < 3; i++ {
		c.GSizes = append(c.GSizes, rapid.IntRange(2, 4).Draw(t, "gsize"))
	}
	n := rapid.IntRange(3, 14).Draw(t, "steps")
	var rejTotal [3]int // rejections per publisher in the whole case stay <= 12 (the deny time doubles with each)
	for i := 0; i < n; i++ {
		op := rapid.SampledFrom([]string{"lb", "lb", "lb", "lb", "pool", "pool", "pass", "pass", "tip", "peermsg", "peermsg", "block", "tx", "batch", "raw", "reply", "fb", "fb", "fb", "sweep"}).Draw(t, "op")
		s := c33Step{Op: op}
		switch op {
		case "lb":
			s.Hashes = c33GenHashes(t, &c)
			s.Height = rapid.SampledFrom([]int64{5, 6, 7, 100, -1, 1 << 62}).Draw(t, "height")
			n := int64(len(s.Hashes))
			s.TxCount = rapid.SampledFrom([]int64{n, n, n, n, n - 1, n + 1, 1, 0, -1, c33BigCount, c33BombCount}).Draw(t, "txCount")
			s.NilHeader = rapid.IntRange(0, 11).Draw(t, "nilHeader") == 0
			s.NilMiner = rapid.IntRange(0, 7).Draw(t, "nilMiner") == 0
			s.From = rapid.IntRange(0, 2).Draw(t, "from")
		case "pool":
			for _, u := range rapid.SliceOfNDistinct(rapid.IntRange(0, c33Singles+2), 1, 5, rapid.ID[int]).Draw(t, "add") {
				if u < c33Singles {
					s.Add = append(s.Add, c33Ref{K: "s", I: u})
				} else {
					s.Add = append(s.Add, c33Ref{K: "g", I: u - c33Singles})
				}
			}
		case "tip":
			s.Height = rapid.Int64Range(1, 12).Draw(t, "tip")
			if rapid.IntRange(0, 3).Draw(t, "rollback") == 0 {
				s.Kind = "rollback" // the chain loses blocks; the broadcast protocol only hears about added blocks
			}
		case "peermsg":
			s.MsgID = rapid.SampledFrom([]int32{blockReqMsgID, blockReqMsgID, blockRespMsgID, 0, 3, -1, 1 << 30}).Draw(t, "msgID")
			s.Body = rapid.SampledFrom([]string{"reqint", "reqint", "block", "junk", "empty"}).Draw(t, "body")
			s.Height = rapid.SampledFrom([]int64{-1, 0, 1, 3, 8, 12, 500, 1 << 62}).Draw(t, "height")
			s.From = rapid.IntRange(0, 2).Draw(t, "from")
			s.Seed = rapid.IntRange(0, 1000).Draw(t, "seed")
		case "block":
			s.Height = rapid.SampledFrom([]int64{1, 5, 6, 200, -1, 1 << 62}).Draw(t, "height")
			s.NTx = rapid.IntRange(0, 4).Draw(t, "ntx")
			s.Seed = rapid.IntRange(0, 1000).Draw(t, "seed")
		case "tx":
			s.Txs = []c33Tx{c33GenTx(t)}
		case "batch":
			s.Txs = rapid.SliceOfN(rapid.Custom(c33GenTx), 0, 5).Draw(t, "txs")
		case "raw":
			s.Topic = rapid.IntRange(0, len(c33Topics)-1).Draw(t, "topic")
			s.Kind = rapid.SampledFrom([]string{"notsnappy", "snappyGarbage", "snappyTruncated", "empty", "declaredHuge"}).Draw(t, "kind")
			s.Seed = rapid.IntRange(0, 1000).Draw(t, "seed")
		case "reply":
			s.Seed = rapid.IntRange(0, 5).Draw(t, "seed")
			s.From = rapid.IntRange(0, 2).Draw(t, "from")
			if rejTotal[s.From]++; rejTotal[s.From] > 12 {
				s.Seed = 1
			}
		case "fb":
			// runs of accepts between rejects, 1..14 blocks of one publisher (at most 4 rejects: the deny time doubles)
			s.From = rapid.IntRange(0, 2).Draw(t, "publisher")
			n, rej := rapid.IntRange(1, 14).Draw(t, "blocks"), 0
			for k := 0; k < n; k++ {
				v := rapid.SampledFrom([]string{"a", "a", "a", "a", "a", "r", "r", "i"}).Draw(t, "verdict")
				if v == "r" {
					if rej, rejTotal[s.From] = rej+1, rejTotal[s.From]+1; rej > 4 || rejTotal[s.From] > 12 {
						v = "a"
					}
				}
				s.Verdicts += v
			}
			s.Via = rapid.SampledFrom([]string{"block", "resp", "resp"}).Draw(t, "via")
			s.Each = rapid.Bool().Draw(t, "each")
		case "sweep":
			s.Kind = rapid.SampledFrom([]string{"now", "later"}).Draw(t, "when") // later: the deny times have run out
		}
		c.Steps = append(c.Steps, s)
	}
	return c
}

// ---------------------------------------------------------------- runner

type c33Runner struct {
	t        lib.TB
	test     string
	c        interface{}
	f        *vfFix
	v        *vfProto
	w        *c33World
	fbSeen   int            // verdicts of f.fbLog already accounted for
	rejects  map[string]int // per publisher (Pretty): rejections with a non-ignored error handled so far
	fbSerial int
	reached  bool // some input passed the first decoding layer (reached the pool lookup / the pending or request list)
}

var c33Recovered int64 // panics swallowed by handleBroadcastReceive's own recover (counted from its log record)

func c33HookLog() {
	log15.Root().SetHandler(log15.FuncHandler(int(log15.LvlError), func(r *log15.Record) error {
		if r.Msg == "handleReceive_Panic" {
			atomic.AddInt64(&c33Recovered, 1)
		}
		return nil
	}))
}

// guard runs one production path. known, when non-empty, names the listed finding whose exact signature the harness
// predicted for THIS call; want is a substring the panic text must then contain.
func (r *c33Runner) guard(path string, known, want string, fn func()) (panicked bool) {
	defer func() {
		e := recover()
		if e == nil {
			return
		}
		panicked = true
		msg := fmt.Sprint(e)
		if known != "" && lib.Known(known) && strings.Contains(msg, want) {
			lib.ExcludedKnown(known)
			return
		}
		lib.Violation(r.t, "C33", r.test, r.c, "panic escaped %s, which production runs without a recover (the node would die): %v\n%s", path, e, c33Stack())
	}()
	fn()
	return false
}

func c33Stack() string {
	var keep []string
	for _, l := range strings.Split(string(debug.Stack()), "\n") {
		if strings.Contains(l, "chain33/") && !strings.Contains(l, "zz_verif_") {
			keep = append(keep, strings.TrimSpace(l))
		}
	}
	if len(keep) > 8 {
		keep = keep[:8]
	}
	return strings.Join(keep, "\n")
}

func (r *c33Runner) topic(i int) string {
	if c33Topics[i] == "peer" {
		return r.v.psub.peerTopic
	}
	return c33Topics[i]
}

// deliver feeds network bytes to a topic the way gossipsub does: inline validator first, and only a message the
// validator accepted reaches the subscription (handleSubMsg worker).
func (r *c33Runner) deliver(topic string, raw []byte, from, publisher peer.ID) ps.ValidationResult {
	m := vfPsMsg(topic, raw, from, publisher)
	res := ps.ValidationAccept
	r.guard("pubsub validator of "+topic, "", "", func() {
		switch topic {
		case psTxTopic:
			res = r.v.val.validateTx(r.v.Ctx, from, m)
		case psBatchTxTopic:
			res = r.v.val.validateBatchTx(r.v.Ctx, from, m)
		case psBlockTopic:
			res = r.v.val.validateBlock(r.v.Ctx, from, m)
		case psLtBlockTopic:
			res = r.v.val.validatePeer(r.v.Ctx, from, m)
		default: // the node's own peer topic: pubSub.init registers no validator for it
		}
	})
	if res == ps.ValidationAccept {
		r.guard("handleSubMsg worker ("+topic+")", "", "", func() { r.v.psub.handleSubMsg(vfOneMsg(topic, raw, from, publisher)) })
	}
	return res
}

func (r *c33Runner) encode(m types.Message) []byte { return r.v.psub.encodeMsg(m, new([]byte)) }

func (r *c33Runner) lightBlock(s c33Step) *types.LightBlock {
	lb := &types.LightBlock{Size: 1000}
	if !s.NilMiner {
		lb.MinerTx = r.w.miner
	}
	for _, h := range s.Hashes {
		lb.STxHashes = append(lb.STxHashes, r.w.shortHash(h))
	}
	if !s.NilHeader {
		b := &types.Block{Height: s.Height, BlockTime: 1700000000, ParentHash: make([]byte, 32), TxHash: []byte(fmt.Sprintf("root-%d-%d", s.TxCount, len(s.Hashes)))}
		lb.Header = b.GetHeader(r.f.cfg)
		lb.Header.TxCount = s.TxCount
		lb.Header.Hash = append(lb.Header.Hash, byte(len(s.Hashes)), byte(s.TxCount))
	}
	return lb
}

func (r *c33Runner) mkTx(x c33Tx) *types.Transaction {
	tx := &types.Transaction{Execer: [][]byte{[]byte("none"), []byte("coins"), {0xff, 0}}[x.Exec%3],
		To:      []string{"1GaHYpWmqAJsqRwrpoNcB8VvgKtSwjcHqt", "", "not-an-address"}[x.To%3],
		Payload: []byte(fmt.Sprint("c33-tx-", x.Seed)), Fee: x.Fee, GroupCount: x.Group, Nonce: int64(x.Seed), ChainID: r.f.cfg.GetChainID()}
	switch x.Hdr {
	case 1:
		tx.Header = []byte{0x0a, 0xff, 0xff, 0x01}
		tx.Next = []byte("next")
	case 2:
		tx.Header = types.Encode(r.w.groups[x.Seed%len(r.w.groups)])
	}
	switch x.Sig {
	case 1:
		tx.Signature = &types.Signature{}
	case 2:
		tx.Signature = &types.Signature{Ty: 2<<12 | 1, Signature: []byte("sig")}
	case 3:
		tx.Signature = &types.Signature{Ty: int32(4+x.Seed%4)<<12 | 1, Pubkey: bytes.Repeat([]byte{2}, 33), Signature: []byte("sig")}
	case 4:
		tx.Signature = &types.Signature{Ty: 1, Pubkey: bytes.Repeat([]byte{7}, 1000), Signature: bytes.Repeat([]byte{9}, 500)}
	}
	return tx
}

// overrun simulates one buildPendBlock pass over the current pool for every pending block and reports the entries in
// which a group found in the pool would be expanded past the end of the block's transaction slice: the exact signature
// of the listed finding c33KnownOverrun.
func (r *c33Runner) overrun() (hit []*list.Element) {
	l := r.v.ltB
	l.pdBlockLock.Lock()
	defer l.pdBlockLock.Unlock()
	r.f.mu.Lock()
	defer r.f.mu.Unlock()
	for it := l.pendBlockList.Front(); it != nil; it = it.Next() {
		pd := it.Value.(*pendBlock)
		n := len(pd.block.Txs)
		filled := make([]bool, n)
		for i, tx := range pd.block.Txs {
			filled[i] = tx != nil
		}
	scan:
		for i := 0; i < n; i++ {
			if filled[i] || i >= len(pd.sTxHashes) {
				continue
			}
			ptx := r.f.pool.GetSHashTxCache(pd.sTxHashes[i])
			if ptx == nil {
				continue
			}
			filled[i] = true
			g, _ := ptx.GetTxGroup()
			for j := range g.GetTxs() {
				if i+j >= n {
					hit = append(hit, it)
					break scan
				}
				filled[i+j] = true
			}
		}
	}
	return hit
}

// pass is one tick of both background loops.
func (r *c33Runner) pass() {
	bad := r.overrun()
	known := ""
	if len(bad) > 0 {
		known = c33KnownOverrun
		lib.Class("pending_group_overrun")
	}
	if r.guard("pendBlockLoop -> buildPendList", known, "index out of range", func() { r.v.ltB.buildPendList() }) {
		// tolerated known finding: production is dead at this point; drop the poisoned entries so that the search goes on
		r.v.ltB.pdBlockLock.Lock()
		for _, it := range bad {
			r.v.ltB.pendBlockList.Remove(it)
		}
		r.v.ltB.pdBlockLock.Unlock()
	} else if len(bad) > 0 {
		lib.Class("predicted_overrun_did_not_panic")
	}
	r.guard("blockRequestLoop -> handleBlockReqList", "", "", func() { r.v.ltB.handleBlockReqList() })
}

// feedback is one waitMsgReplyTicker tick of validator.manageDeniedPeer (a goroutine without recover): the posted
// broadcasts are taken over with copyMsgList, the blockchain module's reply to each is awaited and handed to
// handleBroadcastReply (-> addDeniedPeer / reduceDeniedCount).  The five lines of the tick body are repeated here
// because the body is inline in the loop's select; everything they call is the production code.
// Oracle after the tick (validate.go: "a publisher whose broadcast is rejected is shielded for some time ... the time
// grows exponentially with the error count ... afterwards it is a normal node again"): a publisher with a rejection
// handled in this tick is denied now, for a positive and finite time (at most 2^(n+1) hours after n rejections).
func (r *c33Runner) feedback() {
	v, f := r.v, r.f
	f.flush("blockchain")
	r.guard("manageDeniedPeer (tick body) -> handleBroadcastReply", "", "", func() {
		v.val.copyMsgList()
		for _, bcMsg := range v.val.msgBuf {
			msg, err := v.QueueClient.WaitTimeout(bcMsg.msg, 60*time.Second)
			if msg == nil || err != nil {
				lib.Inconclusive("no verdict from the blockchain responder: %v", err)
			}
			if reply, ok := msg.Data.(*types.Reply); ok {
				v.val.handleBroadcastReply(reply, bcMsg)
			}
		}
	})
	f.mu.Lock()
	fresh := append([]vfVerdict{}, f.fbLog[r.fbSeen:]...)
	r.fbSeen = len(f.fbLog)
	f.mu.Unlock()
	hit := map[string]bool{}
	for _, x := range fresh {
		switch {
		case x.verdict == "":
			lib.Class("feedback_accept")
		case x.verdict == types.ErrBlockExist.Error():
			lib.Class("feedback_ignored_error")
		default:
			lib.Class("feedback_reject")
			r.rejects[x.pid]++
			hit[x.pid] = true
		}
	}
	now := types.Now().Unix()
	v.val.peerLock.RLock()
	defer v.val.peerLock.RUnlock()
	for id, info := range v.val.deniedPeers {
		if n := r.rejects[id.Pretty()]; hit[id.Pretty()] {
			if left := info.freeTimestamp - now; left <= 0 || left > int64(1)<<uint(n+1)*errBlockDenyTime+60 {
				lib.Violation(r.t, "C33", r.test, r.c, "publisher %s had a broadcast rejected (rejection %d) but is now denied for %d s: not a positive, bounded time", id.Pretty(), n, left)
			}
		}
	}
	for pid := range hit {
		found := false
		for id := range v.val.deniedPeers {
			found = found || id.Pretty() == pid
		}
		if !found {
			lib.Violation(r.t, "C33", r.test, r.c, "publisher %s had a broadcast rejected but is not on the denied list", pid)
		}
	}
}

func (r *c33Runner) pendLen() int {
	r.v.ltB.pdBlockLock.Lock()
	defer r.v.ltB.pdBlockLock.Unlock()
	return r.v.ltB.pendBlockList.Len()
}

func (r *c33Runner) reqLen() int {
	r.v.ltB.blockReqLock.Lock()
	defer r.v.ltB.blockReqLock.Unlock()
	return r.v.ltB.blockRequestList.Len()
}

func (r *c33Runner) step(s c33Step) {
	f, v := r.f, r.v
	lib.Class("op_" + s.Op)
	switch s.Op {
	case "lb":
		if s.TxCount > c33BigCount {
			lib.Class("lb_txcount_bomb")
			if lib.Known(c33KnownBomb) { // the in-process search stays below the allocation that kills the process
				lib.ExcludedKnown(c33KnownBomb)
				s.TxCount = c33BigCount
			}
		}
		before := atomic.LoadInt64(&c33Recovered)
		pend := r.pendLen()
		r.deliver(psLtBlockTopic, r.encode(r.lightBlock(s)), f.peers[s.From%3], f.peers[(s.From+1)%3])
		switch {
		case atomic.LoadInt64(&c33Recovered) > before:
			lib.Class("lb_recovered_panic")
		case r.pendLen() > pend:
			lib.Class("lb_pending")
			r.reached = true
		default:
			lib.Class("lb_done_or_dropped")
			if !s.NilHeader && len(s.Hashes) > 0 {
				r.reached = true
			}
		}
	case "pool":
		for _, a := range s.Add {
			f.poolAdd(r.w.poolForm(a))
		}
	case "pass":
		r.pass()
	case "tip":
		f.setChain(s.Height)
		if s.Kind == "rollback" {
			lib.Class("tip_rollback")
			break
		}
		r.guard("handleAddBlock", "", "", func() { v.handleAddBlock(&queue.Message{Data: &types.Block{Height: s.Height}}) })
	case "peermsg":
		m := &types.PeerPubSubMsg{MsgID: s.MsgID}
		switch s.Body {
		case "reqint":
			m.ProtoMsg = types.Encode(&types.ReqInt{Height: s.Height})
		case "block":
			m.ProtoMsg = types.Encode(f.vfBlock(s.Height, []*types.Transaction{r.w.miner, r.w.singles[s.Seed%c33Singles]}))
		case "junk":
			m.ProtoMsg = []byte{0x0a, 0xff, 0xff, 0xff, 0x7f, byte(s.Seed)}
		}
		n := r.reqLen()
		r.deliver(v.psub.peerTopic, r.encode(m), f.peers[s.From%3], f.peers[(s.From+1)%3])
		if r.reqLen() > n {
			lib.Class("blockreq_pending")
			r.reached = true
		}
	case "block":
		var txs []*types.Transaction
		for i := 0; i < s.NTx; i++ {
			txs = append(txs, vfTx(fmt.Sprintf("c33-b-%d-%d", s.Seed, i), 1000))
		}
		b := f.vfBlock(s.Height, txs)
		r.deliver(psBlockTopic, r.encode(b), f.peers[0], f.peers[1])
	case "tx":
		r.deliver(psTxTopic, r.encode(r.mkTx(s.Txs[0])), f.peers[0], f.peers[1])
	case "batch":
		b := &types.Transactions{}
		for _, x := range s.Txs {
			b.Txs = append(b.Txs, r.mkTx(x))
		}
		r.deliver(psBatchTxTopic, r.encode(b), f.peers[0], f.peers[1])
	case "raw":
		r.deliver(r.topic(s.Topic), c33Raw(s.Kind, s.Seed), f.peers[0], f.peers[1])
	case "fb":
		pub := f.peers[s.From%3]
		for _, vd := range s.Verdicts {
			r.fbSerial++
			b := f.vfBlock(f.tip+1, []*types.Transaction{vfTx(fmt.Sprintf("c33-fb-%d", r.fbSerial), 0)})
			f.mu.Lock()
			switch vd {
			case 'r':
				f.verdicts[hex.EncodeToString(b.Hash(f.cfg))] = "ErrBlockHashNoMatch"
			case 'i':
				f.verdicts[hex.EncodeToString(b.Hash(f.cfg))] = types.ErrBlockExist.Error()
			}
			f.mu.Unlock()
			if s.Via == "block" {
				r.deliver(psBlockTopic, r.encode(b), f.peers[(s.From+1)%3], pub)
			} else {
				r.deliver(v.psub.peerTopic, r.encode(&types.PeerPubSubMsg{MsgID: blockRespMsgID, ProtoMsg: types.Encode(b)}), f.peers[(s.From+1)%3], pub)
			}
			if s.Each {
				r.feedback()
			}
		}
		r.feedback()
	case "sweep":
		if s.Kind == "later" { // time passes: every deny period is over
			v.val.peerLock.Lock()
			for _, info := range v.val.deniedPeers {
				info.freeTimestamp -= 20 * 365 * 24 * 3600
			}
			v.val.peerLock.Unlock()
		}
		r.guard("manageDeniedPeer -> recoverDeniedPeers", "", "", func() { v.val.recoverDeniedPeers() })
	case "reply":
		errs := []string{types.ErrMemFull.Error(), "", "ErrBlockHashNoMatch", types.ErrBlockExist.Error(), strings.Repeat("x", 5000), "\xff\xfe"}
		qm := &queue.Message{Ty: []int64{types.EventTx, types.EventBroadcastAddBlock}[s.Seed%2]}
		if s.Seed == 2 || s.Seed == 4 || s.Seed == 5 {
			r.rejects[f.peers[s.From%3].Pretty()]++
		}
		r.guard("manageDeniedPeer -> handleBroadcastReply", "", "", func() {
			v.val.handleBroadcastReply(&types.Reply{IsOk: s.Seed == 1, Msg: []byte(errs[s.Seed%len(errs)])}, &broadcastMsg{msg: qm, publisher: f.peers[s.From%3], hash: "h"})
		})
	}
}

func c33Raw(kind string, seed int) []byte {
	junk := bytes.Repeat([]byte{byte(seed), 0xff, 0x80, byte(seed >> 3)}, 1+seed%40)
	switch kind {
	case "notsnappy":
		return junk
	case "snappyGarbage":
		return snappy.Encode(nil, junk)
	case "snappyTruncated":
		enc := snappy.Encode(nil, types.Encode(&types.Block{Height: int64(seed), Txs: []*types.Transaction{vfTx("raw", 1)}}))
		return enc[:len(enc)-1-seed%(len(enc)-1)]
	case "declaredHuge": // header claims c33MaxSnappy bytes, body is short
		var hdr [binary.MaxVarintLen64]byte
		n := binary.PutUvarint(hdr[:], uint64(c33MaxSnappy))
		return append(hdr[:n:n], junk...)
	}
	return nil
}

// probes: after whatever the case did, well-formed messages are still processed.
func (r *c33Runner) probes() {
	f, v := r.f, r.v
	fail := func(format string, a ...interface{}) { lib.Violation(r.t, "C33", r.test, r.c, format, a...) }
	r.pass()
	// drop what is still pending so that the probes' own deliveries are easy to attribute
	have := len(f.postedBlocks())
	v.published()
	// (1) a well-formed full block one above the local tip
	f.mu.Lock()
	tip := f.tip
	f.mu.Unlock()
	b := f.vfBlock(tip+1, []*types.Transaction{vfTx("probe-miner", 0), vfTx("probe-tx", 1000)})
	res := r.deliver(psBlockTopic, r.encode(b), f.peers[3], f.peers[3])
	posted := f.postedBlocks()
	switch {
	case res == ps.ValidationAccept:
		if len(posted) != have+1 || !bytes.Equal(types.Encode(posted[have].Block), types.Encode(b)) {
			fail("a well-formed block at height %d sent after the case's messages was not handed to the blockchain module", tip+1)
		}
		have++
	case atomic.LoadInt64(&v.val.maxRecvBlkHeight)-int64(blkHeaderCacheSize) >= tip+1 && lib.Known(c33KnownWindow):
		// exact signature of the listed finding: an earlier peer block (any bytes that decode as a Block) with height
		// >= tip+1+128 moved validateBlock's receive window past the real height
		lib.ExcludedKnown(c33KnownWindow)
	default:
		fail("a well-formed block at height %d (local tip %d) sent after the case's messages was refused by validateBlock (result %v, receive window top %d)", tip+1, tip, res, atomic.LoadInt64(&v.val.maxRecvBlkHeight))
	}
	// (2) a complete light block
	p1, p2 := vfTx("probe-a", 1000), vfTx("probe-b", 1000)
	f.poolAdd(p1)
	f.poolAdd(p2)
	lbBlock := f.vfBlock(tip+2, []*types.Transaction{vfTx("probe-miner2", 0), p1, p2})
	r.deliver(psLtBlockTopic, r.encode(v.buildLtBlock(lbBlock)), f.peers[3], f.peers[3])
	posted = f.postedBlocks()
	if len(posted) != have+1 || c34Same(f, lbBlock, posted[have].Block) != "" {
		fail("a complete well-formed light block sent after the case's messages was not rebuilt and handed to the blockchain module")
	}
	// (3) a block request for a height the chain has
	f.setChain(tip + 3)
	r.guard("handleAddBlock", "", "", func() { v.handleAddBlock(&queue.Message{Data: &types.Block{Height: tip + 3}}) })
	v.published()
	req := &types.PeerPubSubMsg{MsgID: blockReqMsgID, ProtoMsg: types.Encode(&types.ReqInt{Height: tip + 3})}
	r.deliver(v.psub.peerTopic, r.encode(req), f.peers[3], f.peers[3])
	f.mu.Lock()
	want := types.Encode(f.chain[tip+3])
	f.mu.Unlock()
	ok := false
	for _, m := range v.published() {
		if pm, is := m.msg.(*types.PeerPubSubMsg); is && m.topic == v.getPeerTopic(f.peers[3]) && pm.MsgID == blockRespMsgID && bytes.Equal(pm.ProtoMsg, want) {
			ok = true
		}
	}
	if !ok {
		fail("a block request for height %d (served by the chain) sent after the case's messages got no block response", tip+3)
	}
	// (4) a request for a height the protocol believes to have while the chain cannot serve it (blocks were rolled back
	// after the AddBlock event): the request loop has to get over the blockchain module's error reply
	far := &types.PeerPubSubMsg{MsgID: blockReqMsgID, ProtoMsg: types.Encode(&types.ReqInt{Height: tip + 9})}
	r.deliver(v.psub.peerTopic, r.encode(far), f.peers[3], f.peers[3])
	r.guard("handleAddBlock", "", "", func() { v.handleAddBlock(&queue.Message{Data: &types.Block{Height: tip + 9}}) })
	r.pass()
}

func c33Run(t lib.TB, test string, c c33Case) (reached bool) {
	f := vfGet()
	f.reset()
	c33HookLog()
	v := f.newProto(3600 * 1000)
	defer v.close()
	r := &c33Runner{t: t, test: test, c: c, f: f, v: v, w: c33NewWorld(f, c.Salt, c.GSizes), rejects: map[string]int{}}
	f.setChain(4)
	v.handleAddBlock(&queue.Message{Data: &types.Block{Height: 4}})
	for _, s := range c.Steps {
		r.step(s)
		v.published() // keep the protocol's outgoing channel drained
	}
	r.probes()
	return r.reached
}

// Non-trivial (DESIGN C33): some input of the case passed the first decoding layer, i.e. a light block reached the pool
// look-up / the pending list or a block request reached the request list.
func TestPropPeerInputBroadcast(t *testing.T) {
	defer lib.Flush()
	rapid.Check(t, func(t *rapid.T) {
		c := c33Gen(t)
		lib.Eval()
		if c33Run(t, "TestPropPeerInputBroadcast", c) {
			lib.NonTrivialCase(c)
		}
	})
}
