package broadcast

// C33: pinned known-finding tests, native fuzz targets (semantic oracle inside: the same guard / probes as the rapid
// property) and the quick-tier replay of their seed corpora (/verif/corpus/C33/<target>/, Go corpus format).

import (
	"fmt"
	"os"
	"os/exec"
	"path/filepath"
	"strconv"
	"strings"
	"sync/atomic"
	"testing"

	"github.com/33cn/chain33/queue"
	"github.com/33cn/chain33/types"
	"github.com/golang/snappy"
	ps "github.com/libp2p/go-libp2p-pubsub"
	"verifharness/lib"
)

// ---------------------------------------------------------------- pinned known findings

func c33Fixed(t lib.TB, test string, c interface{}) *c33Runner {
	f := vfGet()
	f.reset()
	c33HookLog()
	v := f.newProto(3600 * 1000)
	r := &c33Runner{t: t, test: test, c: c, f: f, v: v, w: c33NewWorld(f, 0, []int{2, 3, 4}), rejects: map[string]int{}}
	f.setChain(4)
	v.handleAddBlock(&queue.Message{Data: &types.Block{Height: 4}})
	return r
}

// A light block [miner, X] with TxCount 2 whose second short hash is the head of a 2-transaction group that is not in
// the pool yet is put on the pending list; once the group reaches the pool the next background pass expands it into
// slots 1 and 2 of a 2-slot slice: index panic in pendBlockLoop's goroutine, which has no recover.
func TestKnown_PendLoopGroupOverrun(t *testing.T) {
	defer lib.Flush()
	c := c33Case{GSizes: []int{2, 3, 4}, Steps: []c33Step{
		{Op: "lb", Height: 6, TxCount: 2, Hashes: []c33Ref{{K: "miner"}, {K: "g", I: 0}}},
		{Op: "pool", Add: []c33Ref{{K: "g", I: 0}}}, {Op: "pass"}}}
	r := c33Fixed(t, "TestKnown_PendLoopGroupOverrun", c)
	defer r.v.close()
	r.step(c.Steps[0])
	if r.pendLen() != 1 {
		return // the light block is no longer kept pending: behaviour changed, nothing to pin
	}
	r.step(c.Steps[1])
	var pv interface{}
	func() {
		defer func() { pv = recover() }()
		r.v.ltB.buildPendList()
	}()
	if pv != nil {
		lib.KnownOrViolation(t, "C33", "TestKnown_PendLoopGroupOverrun", c33KnownOverrun, c,
			fmt.Sprintf("pendBlockLoop (no recover) panics when a pool hit for a pending light block is a transaction group longer than the remaining slots: %v", pv))
	}
}

// One peer block with an absurd height moves validateBlock's receive window (maxRecvBlkHeight, updated before any
// validation by the blockchain); every later well-formed block at the real height is then refused as "history".
func TestKnown_BlockHeightPoisonsWindow(t *testing.T) {
	defer lib.Flush()
	c := c33Case{GSizes: []int{2, 3, 4}, Steps: []c33Step{{Op: "block", Height: 1 << 62, NTx: 1}}}
	r := c33Fixed(t, "TestKnown_BlockHeightPoisonsWindow", c)
	defer r.v.close()
	r.step(c.Steps[0])
	b := r.f.vfBlock(5, []*types.Transaction{vfTx("pin-miner", 0)})
	if res := r.deliver(psBlockTopic, r.encode(b), r.f.peers[3], r.f.peers[3]); res != ps.ValidationAccept {
		lib.KnownOrViolation(t, "C33", "TestKnown_BlockHeightPoisonsWindow", c33KnownWindow, c,
			"after one peer block with height 2^62 a well-formed block at local tip+1 is refused by validateBlock: broadcast reception of full blocks stops until restart")
	}
}

const c33ChildEnv = "VERIF_C33_CHILD"

// The allocation cannot be shown in-process (the Go runtime aborts, recover does not help), so the pinned case runs in
// a child copy of this test binary: a ~60 byte light block with header.txCount = 2^44 is delivered to handleSubMsg.
func TestKnown_LtBlockTxCountAllocation(t *testing.T) {
	defer lib.Flush()
	cmd := exec.Command(os.Args[0], "-test.run", "^TestC33ChildAllocation$", "-test.v")
	cmd.Env = append(os.Environ(), c33ChildEnv+"=1", "VERIF_STATS=", "VERIF_REPLAY_OUT=")
	out, err := cmd.CombinedOutput()
	s := string(out)
	switch {
	case strings.Contains(s, "C33-CHILD-SURVIVED") && err == nil:
		return
	case strings.Contains(s, "fatal error: runtime: out of memory") || strings.Contains(s, "cannot allocate"):
		lib.KnownOrViolation(t, "C33", "TestKnown_LtBlockTxCountAllocation", c33KnownBomb,
			map[string]interface{}{"lightBlock": "header.txCount = 2^44, one short hash"},
			"addLtBlock sizes three slices by the peer-chosen header.txCount before looking at the hash list: a 60-byte light block makes the Go runtime abort the process (allocation failure is not a recoverable panic)")
	default:
		lib.Inconclusive("child process for the allocation case ended unexpectedly: %v / %d bytes of output", err, len(s))
	}
}

func TestC33ChildAllocation(t *testing.T) {
	if os.Getenv(c33ChildEnv) == "" {
		t.Skip("child entry of TestKnown_LtBlockTxCountAllocation")
	}
	r := c33Fixed(t, "TestC33ChildAllocation", nil)
	lb := r.lightBlock(c33Step{Height: 6, TxCount: c33BombCount, Hashes: []c33Ref{{K: "miner"}}})
	r.v.psub.handleSubMsg(vfOneMsg(psLtBlockTopic, r.encode(lb), r.f.peers[0], r.f.peers[1]))
	fmt.Println("C33-CHILD-SURVIVED")
}

// ---------------------------------------------------------------- fuzz bodies

// c33TooBig reports inputs whose only effect is an allocation the test process must not attempt: a snappy header
// declaring more than c33MaxSnappy bytes, or (light-block topic) a header.txCount above c33BigCount.
func c33TooBig(topic string, raw []byte) bool {
	n, err := snappy.DecodedLen(raw)
	if err == nil && n > c33MaxSnappy {
		lib.Note("snappy_declared_len_above_16MiB_skipped", 1)
		return true
	}
	if topic != psLtBlockTopic || err != nil {
		return false
	}
	if dec, err := snappy.Decode(nil, raw); err == nil {
		var lb types.LightBlock
		if types.Decode(dec, &lb) == nil && lb.GetHeader().GetTxCount() > c33BigCount {
			lib.Class("lb_txcount_bomb")
			if lib.Known(c33KnownBomb) {
				lib.ExcludedKnown(c33KnownBomb)
				return true
			}
		}
	}
	return false
}

var c33FuzzUnits = func() (u []c33Ref) {
	for i := 0; i < c33Singles; i++ {
		u = append(u, c33Ref{K: "s", I: i})
	}
	for g := 0; g < 3; g++ {
		u = append(u, c33Ref{K: "g", I: g})
	}
	return
}()

// body of FuzzLightBlock: data is the protobuf encoding of a LightBlock as the peer sends it (before snappy); mask says
// which of the 9 fixed pool units are in the pool when it arrives. The others arrive later in two steps with a
// background pass after each ("later pool updates between two background passes").
func c33FuzzLightBlock(t lib.TB, test string, data []byte, mask uint16) {
	lib.Eval()
	raw := snappy.Encode(nil, data)
	if c33TooBig(psLtBlockTopic, raw) {
		return
	}
	r := c33Fixed(t, test, map[string]interface{}{"lightBlockProto": fmt.Sprintf("%x", data), "poolMask": mask})
	defer r.v.close()
	for i, u := range c33FuzzUnits {
		if mask&(1<<uint(i)) != 0 {
			r.f.poolAdd(r.w.poolForm(u))
		}
	}
	before := atomic.LoadInt64(&c33Recovered)
	r.deliver(psLtBlockTopic, raw, r.f.peers[0], r.f.peers[1])
	switch {
	case atomic.LoadInt64(&c33Recovered) > before:
		lib.Class("lb_recovered_panic")
	case r.pendLen() > 0:
		lib.Class("lb_pending")
		lib.NonTrivial(lib.Fingerprint(data, mask))
		if lib.SampleCount() < 2 {
			lib.Sample(map[string]interface{}{"lightBlockProto": fmt.Sprintf("%x", data), "poolMask": mask})
		}
	default:
		lib.Class("lb_done_or_dropped")
	}
	r.pass()
	for half := 0; half < 2; half++ {
		for i, u := range c33FuzzUnits {
			if mask&(1<<uint(i)) == 0 && i%2 == half {
				r.f.poolAdd(r.w.poolForm(u))
			}
		}
		r.pass()
	}
	r.probes()
}

// body of FuzzPeerMsg: a PeerPubSubMsg{msgID, body} on this node's peer topic, then the chain advances to tip and the
// request loop runs.
func c33FuzzPeerMsg(t lib.TB, test string, msgID int32, body []byte, tip uint8) {
	lib.Eval()
	r := c33Fixed(t, test, map[string]interface{}{"msgID": msgID, "protoMsg": fmt.Sprintf("%x", body), "tip": tip})
	defer r.v.close()
	r.deliver(r.v.psub.peerTopic, r.encode(&types.PeerPubSubMsg{MsgID: msgID, ProtoMsg: body}), r.f.peers[0], r.f.peers[1])
	if r.reqLen() > 0 {
		lib.Class("blockreq_pending")
		lib.NonTrivial(lib.Fingerprint(msgID, body, tip))
		if lib.SampleCount() < 2 {
			lib.Sample(map[string]interface{}{"msgID": msgID, "protoMsg": fmt.Sprintf("%x", body), "tip": tip})
		}
	}
	r.pass()
	r.step(c33Step{Op: "tip", Height: 4 + int64(tip%16)})
	r.pass()
	r.probes()
}

// body of FuzzPubSubRaw: arbitrary network bytes on one of the five topics (validator, snappy and protobuf decoding).
func c33FuzzRaw(t lib.TB, test string, topic uint8, raw []byte) {
	lib.Eval()
	r := c33Fixed(t, test, map[string]interface{}{"topic": topic % 5, "raw": fmt.Sprintf("%x", raw)})
	defer r.v.close()
	tp := r.topic(int(topic % 5))
	if c33TooBig(tp, raw) {
		return
	}
	if dec, err := snappy.Decode(nil, raw); err == nil && types.Decode(dec, r.v.psub.newMsg(tp)) == nil {
		lib.Class("raw_decodable")
		lib.NonTrivial(lib.Fingerprint(topic%5, raw))
	}
	r.deliver(tp, raw, r.f.peers[0], r.f.peers[1])
	r.pass()
	r.probes()
}

func FuzzLightBlock(f *testing.F) {
	f.Fuzz(func(t *testing.T, data []byte, mask uint16) { c33FuzzLightBlock(t, "FuzzLightBlock", data, mask) })
}

func FuzzPeerMsg(f *testing.F) {
	f.Fuzz(func(t *testing.T, msgID int32, body []byte, tip uint8) {
		c33FuzzPeerMsg(t, "FuzzPeerMsg", msgID, body, tip)
	})
}

func FuzzPubSubRaw(f *testing.F) {
	f.Fuzz(func(t *testing.T, topic uint8, raw []byte) { c33FuzzRaw(t, "FuzzPubSubRaw", topic, raw) })
}

// ---------------------------------------------------------------- seed corpus: replay (quick tier) and generation

func c33CorpusDir(target string) string {
	dir := os.Getenv("VERIF_DIR")
	if dir == "" {
		dir = "/verif"
	}
	return filepath.Join(dir, "corpus", "C33", target)
}

// c33ReadCorpus parses a "go test fuzz v1" file into its argument literals.
func c33ReadCorpus(path string) []interface{} {
	raw, err := os.ReadFile(path)
	lines := strings.Split(strings.TrimSpace(string(raw)), "\n")
	if err != nil || len(lines) < 2 || lines[0] != "go test fuzz v1" {
		lib.Inconclusive("corpus file %s is not in go fuzz v1 format", path)
	}
	var out []interface{}
	for _, l := range lines[1:] {
		open := strings.Index(l, "(")
		ty, lit := l[:open], l[open+1:len(l)-1]
		switch ty {
		case "[]byte":
			s, err := strconv.Unquote(lit)
			if err != nil {
				lib.Inconclusive("corpus file %s: %v", path, err)
			}
			out = append(out, []byte(s))
		default:
			n, err := strconv.ParseInt(lit, 0, 64)
			if err != nil {
				lib.Inconclusive("corpus file %s: %v", path, err)
			}
			out = append(out, n)
		}
	}
	return out
}

// TestCorpusReplayC33 runs every saved seed (and any crasher later added to the directories) through the fuzz bodies.
func TestCorpusReplayC33(t *testing.T) {
	defer lib.Flush()
	total := 0
	for _, target := range []string{"FuzzLightBlock", "FuzzPeerMsg", "FuzzPubSubRaw"} {
		files, _ := filepath.Glob(filepath.Join(c33CorpusDir(target), "*"))
		for _, p := range files {
			a := c33ReadCorpus(p)
			total++
			lib.Class("corpus_" + target)
			switch target {
			case "FuzzLightBlock":
				c33FuzzLightBlock(t, "TestCorpusReplayC33", a[0].([]byte), uint16(a[1].(int64)))
			case "FuzzPeerMsg":
				c33FuzzPeerMsg(t, "TestCorpusReplayC33", int32(a[0].(int64)), a[1].([]byte), uint8(a[2].(int64)))
			case "FuzzPubSubRaw":
				c33FuzzRaw(t, "TestCorpusReplayC33", uint8(a[0].(int64)), a[1].([]byte))
			}
		}
	}
	if total == 0 {
		lib.Inconclusive("C33 seed corpora are empty")
	}
}

// TestC33WriteCorpus regenerates the seed corpora (run by hand with VERIF_C33_WRITE_CORPUS=<dir>).
func TestC33WriteCorpus(t *testing.T) {
	dir := os.Getenv("VERIF_C33_WRITE_CORPUS")
	if dir == "" {
		t.Skip("set VERIF_C33_WRITE_CORPUS to regenerate the seed corpora")
	}
	r := c33Fixed(t, "TestC33WriteCorpus", nil)
	defer r.v.close()
	write := func(target, name string, lines ...string) {
		d := filepath.Join(dir, target)
		_ = os.MkdirAll(d, 0o755)
		if err := os.WriteFile(filepath.Join(d, name), []byte("go test fuzz v1\n"+strings.Join(lines, "\n")+"\n"), 0o644); err != nil {
			t.Fatal(err)
		}
	}
	q := func(b []byte) string { return "[]byte(" + strconv.Quote(string(b)) + ")" }
	M, S, G := c33Ref{K: "miner"}, func(i int) c33Ref { return c33Ref{K: "s", I: i} }, func(g, j int) c33Ref { return c33Ref{K: "g", I: g, J: j} }
	lbs := map[string]c33Step{
		"honest-singles":     {Height: 6, TxCount: 4, Hashes: []c33Ref{M, S(0), S(1), S(2)}},
		"honest-group-mid":   {Height: 6, TxCount: 5, Hashes: []c33Ref{M, S(0), G(0, 0), G(0, 1), S(1)}},
		"honest-group-last":  {Height: 7, TxCount: 5, Hashes: []c33Ref{M, S(3), G(1, 0), G(1, 1), G(1, 2)}},
		"head-at-last-slot":  {Height: 6, TxCount: 3, Hashes: []c33Ref{M, S(0), G(2, 0)}},
		"head-at-slot-1-of2": {Height: 6, TxCount: 2, Hashes: []c33Ref{M, G(0, 0)}},
		"count-minus-one":    {Height: 6, TxCount: -1, Hashes: []c33Ref{M, S(0)}},
		"count-zero":         {Height: 6, TxCount: 0, Hashes: []c33Ref{M, S(0)}},
		"count-plus-one":     {Height: 6, TxCount: 3, Hashes: []c33Ref{M, S(0)}},
		"count-less":         {Height: 6, TxCount: 2, Hashes: []c33Ref{M, S(0), S(1), S(2)}},
		"count-large":        {Height: 6, TxCount: c33BigCount, Hashes: []c33Ref{M, S(0)}},
		"no-hashes":          {Height: 6, TxCount: 3},
		"nil-header":         {NilHeader: true, Hashes: []c33Ref{M, S(0)}},
		"nil-miner":          {Height: 6, TxCount: 2, NilMiner: true, Hashes: []c33Ref{M, S(0)}},
		"junk-hash":          {Height: 6, TxCount: 3, Hashes: []c33Ref{M, {K: "junk", I: 1}, S(1)}},
	}
	for name, s := range lbs {
		data := types.Encode(r.lightBlock(s))
		for _, mask := range []uint16{0, 0x1ff, 0x03f} {
			write("FuzzLightBlock", fmt.Sprintf("%s-%03x", name, mask), q(data), fmt.Sprintf("uint16(%d)", mask))
		}
	}
	blk := types.Encode(r.f.vfBlock(5, []*types.Transaction{r.w.miner, r.w.singles[0]}))
	peer := map[string]struct {
		id   int32
		body []byte
		tip  uint8
	}{
		"req-served": {blockReqMsgID, types.Encode(&types.ReqInt{Height: 3}), 0}, "req-future": {blockReqMsgID, types.Encode(&types.ReqInt{Height: 9}), 6},
		"req-never": {blockReqMsgID, types.Encode(&types.ReqInt{Height: 1 << 40}), 2}, "req-zero": {blockReqMsgID, types.Encode(&types.ReqInt{}), 0},
		"req-negative": {blockReqMsgID, types.Encode(&types.ReqInt{Height: -5}), 0}, "resp-block": {blockRespMsgID, blk, 0},
		"resp-empty": {blockRespMsgID, nil, 0}, "resp-junk": {blockRespMsgID, []byte{0x0a, 0xff, 0xff, 0x7f}, 0}, "unknown-id": {7, blk, 0},
	}
	for name, p := range peer {
		write("FuzzPeerMsg", name, fmt.Sprintf("int32(%d)", p.id), q(p.body), fmt.Sprintf("uint8(%d)", p.tip))
	}
	raws := map[string]struct {
		topic int
		m     types.Message
	}{"tx": {0, r.w.singles[0]}, "batch": {1, &types.Transactions{Txs: r.w.singles[:3]}}, "block": {2, r.f.vfBlock(5, r.w.singles[:2])},
		"ltblock": {3, r.lightBlock(lbs["honest-group-mid"])}, "peermsg": {4, &types.PeerPubSubMsg{MsgID: blockReqMsgID, ProtoMsg: types.Encode(&types.ReqInt{Height: 3})}}}
	for name, x := range raws {
		enc := r.encode(x.m)
		write("FuzzPubSubRaw", name, fmt.Sprintf("uint8(%d)", x.topic), q(enc))
		write("FuzzPubSubRaw", name+"-truncated", fmt.Sprintf("uint8(%d)", x.topic), q(enc[:len(enc)/2]))
		write("FuzzPubSubRaw", name+"-wrong-topic", fmt.Sprintf("uint8(%d)", (x.topic+1)%5), q(enc))
	}
	for _, k := range []string{"notsnappy", "snappyGarbage", "declaredHuge"} {
		write("FuzzPubSubRaw", "raw-"+k, "uint8(3)", q(c33Raw(k, 7)))
	}
}

// Fixed regression for the peer-denial bookkeeping: one publisher, one rejected block, a run of accepted ones, one more
// rejected (all in flight before the feedback tick, and again with a tick after each), then the deny times run out.
func TestRegress_C33DenyFeedback(t *testing.T) {
	defer lib.Flush()
	for _, each := range []bool{false, true} {
		lib.Eval()
		c33Run(t, "TestRegress_C33DenyFeedback", c33Case{GSizes: []int{2, 2, 2}, Steps: []c33Step{
			{Op: "fb", From: 1, Verdicts: "raaaaar", Via: "resp", Each: each}, {Op: "sweep", Kind: "later"},
			{Op: "fb", From: 1, Verdicts: "aaaariaar", Via: "block", Each: each}, {Op: "sweep", Kind: "now"}}})
	}
}
