package broadcast

// Shared fixture of the C33 / C34 white-box checks.
//
// A broadcastProtocol is wired by hand exactly as broadcastProtocol.init / initPubSubBroadcast / initLightBroadcast
// do, but WITHOUT starting the background goroutines (pendBlockLoop, blockRequestLoop, handleSubMsg workers,
// manageDeniedPeer): the harness calls the loop bodies itself so that (a) a panic can be attributed to the path it
// escaped from and (b) no verdict depends on a ticker.  Everything below the protocol is real: chain33 queue, the
// client API (client.New over the queue), p2p.Manager.PubBroadCast, a libp2p host with gossipsub (needed by
// pubPeerMsg -> TryJoinTopic).  The two neighbouring modules are small responders on the real queue:
//   - "mempool":    EventTxListByHash is answered from a real mempool.SHashTxCache with the loop of
//                   Mempool.getTxListByHash (one entry per requested hash, nil when absent); EventTx is recorded.
//   - "blockchain": EventBroadcastAddBlock is recorded; EventGetBlocks follows BlockChain.ProcGetBlockDetailsMsg's
//                   contract (an error value as reply data when the range is not servable).

import (
	"container/list"
	"context"
	"crypto/ed25519"
	"crypto/sha256"
	"encoding/hex"
	"fmt"
	"os"
	"sync"
	"time"

	"github.com/33cn/chain33/client"
	"github.com/33cn/chain33/common/log/log15"
	"github.com/33cn/chain33/common/merkle"
	"github.com/33cn/chain33/common/pubsub"
	"github.com/33cn/chain33/p2p"
	"github.com/33cn/chain33/p2p/utils"
	"github.com/33cn/chain33/queue"
	"github.com/33cn/chain33/system/mempool"
	net "github.com/33cn/chain33/system/p2p/dht/extension"
	prototypes "github.com/33cn/chain33/system/p2p/dht/protocol"
	p2pty "github.com/33cn/chain33/system/p2p/dht/types"
	"github.com/33cn/chain33/types"
	"github.com/libp2p/go-libp2p"
	ps "github.com/libp2p/go-libp2p-pubsub"
	pspb "github.com/libp2p/go-libp2p-pubsub/pb"
	"github.com/libp2p/go-libp2p/core/crypto"
	"github.com/libp2p/go-libp2p/core/peer"
	"verifharness/lib"
)

const vfSentinel = int64(987654321) // event type of the harness' own "flush" message to a responder

type vfBlackList struct{}

func (vfBlackList) Add(string, time.Duration) {}
func (vfBlackList) Has(string) bool           { return false }
func (vfBlackList) List() *types.Blacklist    { return &types.Blacklist{} }

type vfFix struct {
	cfg   *types.Chain33Config
	q     queue.Queue
	env   prototypes.P2PEnv
	peers []peer.ID // remote peer identities used as senders

	mu     sync.Mutex
	pool   *mempool.SHashTxCache
	posted []*types.BlockPid      // blocks delivered to the blockchain module
	txs    []*types.Transaction   // transactions delivered to the mempool module
	chain  map[int64]*types.Block // what the blockchain module can serve
	tip    int64
	// verdict of the blockchain module on a broadcast block, by block hash (hex): absent / "" = accepted, otherwise the
	// error text of the rejection; fbLog records (publisher, verdict) in the order the verdicts were given
	verdicts map[string]string
	fbLog    []vfVerdict
}

type vfVerdict struct {
	pid     string
	verdict string
}

var (
	vfOnce sync.Once
	vf     *vfFix
)

func vfKey(seed byte) crypto.PrivKey {
	s := sha256.Sum256([]byte{'v', 'f', seed})
	k, err := crypto.UnmarshalEd25519PrivateKey(ed25519.NewKeyFromSeed(s[:]))
	if err != nil {
		panic(err)
	}
	return k
}

// vfGet builds the process-wide fixture once. Per-case state (pool, recorded deliveries, chain) is reset by reset().
func vfGet() *vfFix {
	vfOnce.Do(func() {
		log15.Root().SetHandler(log15.DiscardHandler())
		repo := os.Getenv("VERIF_REPO")
		if repo == "" {
			repo = "/repo"
		}
		f := &vfFix{}
		f.cfg = types.NewChain33Config(types.ReadFile(repo + "/cmd/chain33/chain33.test.toml"))
		log15.Root().SetHandler(log15.DiscardHandler())
		f.q = queue.New("verif-c33")
		f.q.SetConfig(f.cfg)
		go f.q.Start()
		mgr := p2p.NewP2PMgr(f.cfg)
		mgr.Client = f.q.Client()
		mgr.SysAPI, _ = client.New(mgr.Client, nil)
		sub := &p2pty.P2PSubConfig{}
		types.MustDecode(f.cfg.GetSubConfig().P2P[p2pty.DHTTypeName], sub)
		host, err := libp2p.New(libp2p.NoListenAddrs, libp2p.Identity(vfKey(0)))
		if err != nil {
			lib.Inconclusive("libp2p host: %v", err)
		}
		api, _ := client.New(f.q.Client(), nil)
		f.env = prototypes.P2PEnv{ChainCfg: f.cfg, QueueClient: f.q.Client(), Host: host, P2PManager: mgr, SubConfig: sub,
			API: api, ConnBlackList: vfBlackList{}, Ctx: context.Background()}
		f.env.Pubsub, err = net.NewPubSub(context.Background(), host, &p2pty.PubSubConfig{})
		if err != nil {
			lib.Inconclusive("gossipsub: %v", err)
		}
		for i := byte(1); i <= 4; i++ { // 0..2 senders of generated messages, 3 the sender of the probes
			id, _ := peer.IDFromPrivateKey(vfKey(i))
			f.peers = append(f.peers, id)
		}
		f.reset()
		f.serve("mempool", f.onMempool)
		f.serve("blockchain", f.onBlockchain)
		vf = f
	})
	return vf
}

func (f *vfFix) reset() {
	f.mu.Lock()
	f.pool = mempool.NewSHashTxCache(10240)
	f.posted, f.txs = nil, nil
	f.chain = map[int64]*types.Block{}
	f.tip = 0
	f.verdicts, f.fbLog = map[string]string{}, nil
	f.mu.Unlock()
}

func (f *vfFix) serve(topic string, h func(cli queue.Client, msg *queue.Message)) {
	cli := f.q.Client()
	cli.Sub(topic)
	go func() {
		for msg := range cli.Recv() {
			if msg.Ty == vfSentinel {
				msg.Reply(cli.NewMessage("", vfSentinel, &types.Reply{IsOk: true}))
				continue
			}
			h(cli, msg)
		}
	}()
}

// flush returns once the responder of topic has handled every message sent to it before this call (the queue's
// high-priority channel and the responder are FIFO).
func (f *vfFix) flush(topic string) {
	cli := f.env.QueueClient
	msg := cli.NewMessage(topic, vfSentinel, nil)
	if err := cli.Send(msg, true); err != nil {
		lib.Inconclusive("flush %s: %v", topic, err)
	}
	if _, err := cli.WaitTimeout(msg, 60*time.Second); err != nil {
		lib.Inconclusive("flush %s: %v", topic, err)
	}
}

func (f *vfFix) onMempool(cli queue.Client, msg *queue.Message) {
	switch msg.Ty {
	case types.EventTxListByHash:
		// Mempool.getTxListByHash, short-hash branch: one entry per requested hash.
		req := msg.GetData().(*types.ReqTxHashList)
		var reply types.ReplyTxList
		f.mu.Lock()
		for _, h := range req.GetHashes() {
			reply.Txs = append(reply.Txs, f.pool.GetSHashTxCache(h))
		}
		f.mu.Unlock()
		msg.Reply(cli.NewMessage("", types.EventReplyTxList, &reply))
	case types.EventTx:
		f.mu.Lock()
		if tx, ok := msg.GetData().(*types.Transaction); ok {
			f.txs = append(f.txs, tx)
		}
		f.mu.Unlock()
		msg.Reply(cli.NewMessage("", types.EventReply, &types.Reply{IsOk: true}))
	default:
		msg.Reply(cli.NewMessage("", types.EventReply, &types.Reply{IsOk: true}))
	}
}

func (f *vfFix) onBlockchain(cli queue.Client, msg *queue.Message) {
	switch msg.Ty {
	case types.EventBroadcastAddBlock:
		// BlockChain.addBlock answers with Reply{IsOk} / Reply{Msg: error text}
		verdict := ""
		f.mu.Lock()
		if bp, ok := msg.GetData().(*types.BlockPid); ok {
			f.posted = append(f.posted, bp)
			verdict = f.verdicts[hex.EncodeToString(bp.Block.Hash(f.cfg))]
			f.fbLog = append(f.fbLog, vfVerdict{pid: bp.Pid, verdict: verdict})
		}
		f.mu.Unlock()
		msg.Reply(cli.NewMessage("", types.EventReply, &types.Reply{IsOk: verdict == "", Msg: []byte(verdict)}))
	case types.EventGetBlocks:
		req := msg.GetData().(*types.ReqBlocks)
		f.mu.Lock()
		var out interface{}
		switch {
		case req.Start > f.tip:
			out = types.ErrStartHeight
		case req.Start > req.End:
			out = types.ErrEndLessThanStartHeight
		case req.End-req.Start >= types.MaxBlockCountPerTime:
			out = types.ErrMaxCountPerTime
		default:
			d := &types.BlockDetails{}
			for h := req.Start; h <= req.End && h <= f.tip; h++ {
				b, ok := f.chain[h]
				if !ok {
					d = nil
					break
				}
				d.Items = append(d.Items, &types.BlockDetail{Block: b})
			}
			if d == nil {
				out = types.ErrHeightNotExist
			} else {
				out = d
			}
		}
		f.mu.Unlock()
		msg.Reply(cli.NewMessage("", types.EventBlocks, out))
	default:
		msg.Reply(cli.NewMessage("", types.EventReply, &types.Reply{IsOk: true}))
	}
}

// poolAdd puts a transaction (for a group: its pool form, the head carrying the encoded group) into the short-hash
// cache the way txCache.Push does.
func (f *vfFix) poolAdd(tx *types.Transaction) {
	f.mu.Lock()
	f.pool.Push(tx, tx.Hash())
	f.mu.Unlock()
}

func (f *vfFix) postedBlocks() []*types.BlockPid {
	f.flush("blockchain")
	f.mu.Lock()
	defer f.mu.Unlock()
	return append([]*types.BlockPid{}, f.posted...)
}

func (f *vfFix) setChain(tip int64) {
	f.mu.Lock()
	for h := f.tip; h <= tip; h++ {
		if _, ok := f.chain[h]; !ok {
			f.chain[h] = &types.Block{Height: h, BlockTime: 1600000000 + h, Txs: []*types.Transaction{vfTx(fmt.Sprintf("miner-%d", h), 0)}}
		}
	}
	f.tip = tip
	f.mu.Unlock()
}

// vfProto is one protocol instance wired like production but with no background goroutine running.
type vfProto struct {
	*broadcastProtocol
	psub   *pubSub
	out    chan interface{} // what the protocol publishes to the network (publishMsg values)
	cancel context.CancelFunc
}

func (f *vfFix) newProto(pendTimeoutMs int64) *vfProto {
	ctx, cancel := context.WithCancel(context.Background())
	env := f.env
	env.Ctx = ctx
	p := &broadcastProtocol{syncStatus: true}
	p.P2PEnv = &env
	p.ps = pubsub.NewPubSub(1024)
	p.cfg = env.SubConfig.Broadcast
	p.cfg.LtBlockPendTimeout = pendTimeoutMs
	p.setDefaultConfig()
	p.txFilter = utils.NewFilter(p.cfg.TxFilterLen)
	p.blockFilter = utils.NewFilter(p.cfg.BlockFilterLen)
	ps := &pubSub{broadcastProtocol: p}
	ps.peerTopic = p.getPeerTopic(p.Host.ID())
	ps.val = newValidator(ps)
	p.val = ps.val
	p.ltB = &ltBroadcast{broadcastProtocol: p, pendBlockList: list.New(), blockRequestList: list.New()}
	return &vfProto{broadcastProtocol: p, psub: ps, out: p.ps.Sub(psBroadcast), cancel: cancel}
}

func (v *vfProto) close() {
	v.cancel()
	v.ps.Shutdown()
}

type vfMark struct{}

// published returns everything the protocol has published for the network so far (and empties the channel): a marker
// is published after them on the same FIFO command channel and the channel is read up to the marker.
func (v *vfProto) published() []publishMsg {
	v.ps.Pub(vfMark{}, psBroadcast)
	var out []publishMsg
	for {
		select {
		case m := <-v.out:
			if _, ok := m.(vfMark); ok {
				return out
			}
			if pm, ok := m.(publishMsg); ok {
				out = append(out, pm)
			}
		case <-time.After(60 * time.Second):
			lib.Inconclusive("internal pubsub did not deliver the marker")
		}
	}
}

// vfTx is a small distinct unsigned transaction (the broadcast layer never checks signatures).
func vfTx(tag string, fee int64) *types.Transaction {
	return &types.Transaction{Execer: []byte("none"), Payload: []byte(tag), Fee: fee, Nonce: int64(len(tag)), To: "1GaHYpWmqAJsqRwrpoNcB8VvgKtSwjcHqt"}
}

// vfBlock builds a block over txs with the transaction root in its header.
func (f *vfFix) vfBlock(height int64, txs []*types.Transaction) *types.Block {
	b := &types.Block{Height: height, BlockTime: 1700000000 + height, ParentHash: make([]byte, 32), Txs: txs}
	if len(txs) > 0 {
		b.TxHash = merkle.CalcMerkleRoot(f.cfg, height, txs)
	}
	return b
}

// vfOneMsg is the input channel of a handleSubMsg worker holding exactly one network message: handleSubMsg handles it
// and returns when it finds the channel closed, so the production loop body runs synchronously in the caller.
func vfOneMsg(topic string, raw []byte, from, publisher peer.ID) chan net.SubMsg {
	ch := make(chan net.SubMsg, 1)
	ch <- vfPsMsg(topic, raw, from, publisher)
	close(ch)
	return ch
}

func vfPsMsg(topic string, raw []byte, from, publisher peer.ID) *ps.Message {
	t := topic
	return &ps.Message{Message: &pspb.Message{Data: raw, From: []byte(publisher), Topic: &t}, ReceivedFrom: from}
}
