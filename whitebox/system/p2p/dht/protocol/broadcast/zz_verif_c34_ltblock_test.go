package broadcast

// C34: light blocks are rebuilt exactly or fall back.
//
// Oracle (from the property text only):
//   - every transaction of the light block is available in the pool  => exactly one block is handed to the blockchain
//     module, with the same transactions at the same positions and the same hash as the miner's block (the header hash,
//     and the transaction root recomputed over the rebuilt list equals the root in the header);
//   - some are missing => nothing is handed over while the block is pending; when the missing ones arrive before the
//     pending timeout the block is handed over (identical, once); when the timeout passes first nothing is handed over,
//     the block leaves the pending list and a block request (blockReqMsgID, that height) is published to the peer the
//     light block was received from.
// Time is never slept on for a verdict.  The protocol reads time through types.Now(), the NTP-corrected clock whose
// correction is set with the exported types.SetTimeDelta (what the node's fixTime routine does, +-300 s).  Every case
// installs a generated correction BEFORE the light block arrives (0 in half of the cases, otherwise +-[1 s, 290 s]
// including values around the pending timeout) and keeps it; "X of protocol time passes" = SetTimeDelta(current + X),
// restored at the end of the case (the correction is process-global; cases of a process run one after the other).  The
// configured timeout is 60 s (20 s in the same-height property), "the timeout passes" is an advance of 1.5 timeouts,
// and background passes are buildPendList calls made by the harness.  Real time that elapses meanwhile counts as
// protocol time too: an assertion "not timed out yet" is only made while real + advanced time since arrival is at
// least 5 s below the timeout (otherwise the case is inconclusive, never a violation).  Only the "request is published" step needs the real pendBlockLoop (the request is sent from the loop
// body): it is run until the pending list is empty (watchdog => inconclusive), then stopped, and the protocol's
// outgoing channel is read up to a marker.
//
// The pool holds a transaction group as ONE entry (the head carrying the encoded group, keyed by the head's short
// hash) exactly like txCache.Push does, so availability is drawn per unit (single transaction or whole group).

import (
	"bytes"
	"fmt"
	"sync/atomic"
	"testing"
	"time"

	"github.com/33cn/chain33/common/merkle"
	"github.com/33cn/chain33/types"
	"pgregory.net/rapid"
	"verifharness/lib"
)

type c34Case struct {
	N       int      `json:"n"`      // transactions in the block, index 0 is the miner transaction
	Groups  [][2]int `json:"groups"` // [start index, size], ascending, disjoint, start >= 1
	Pattern string   `json:"pattern"`
	Present []bool   `json:"present"` // per unit (in block order, miner excluded): in the pool when the light block arrives
	Arrive  string   `json:"arrive"`  // before | after | never  (relative to the pending timeout)
	Batches int      `json:"batches"` // the missing units arrive in this many steps, one background pass after each
	Idle    int      `json:"idle"`    // background passes before anything arrives
	Drive   string   `json:"drive"`   // direct | loop : how the timeout is observed
	Height  int64    `json:"height"`
	Salt    int      `json:"salt"`
	Delta   int      `json:"clockDeltaSec"` // clock correction (types.SetTimeDelta) in force when the light block arrives and throughout
	Early   int      `json:"earlySec"`      // protocol time that passes right after arrival, still below the timeout
}

const (
	c34Timeout      = 60 * time.Second // LtBlockPendTimeout of TestPropLightBlockRebuild
	c34MultiTimeout = 20 * time.Second // ... of TestPropLightBlockSameHeight
	c34Margin       = 5 * time.Second
)

// c34Clock drives the protocol's clock through the exported correction.
type c34Clock struct {
	orig, cur int64
	timeout   time.Duration
	t0        time.Time     // real time of the arrival being watched
	adv       time.Duration // protocol time advanced since t0
}

func c34StartClock(deltaSec int, timeout time.Duration) *c34Clock {
	// the correction in force (0 in a test process): corrected minus raw clock; the raw clock is read a moment later, so
	// every sample errs on the negative side by the scheduling gap - take the best of a few samples
	orig := int64(-time.Hour)
	for i := 0; i < 7; i++ {
		if d := int64(types.Now().Sub(time.Now())); d > orig {
			orig = d
		}
	}
	if orig = int64(time.Duration(orig).Round(10 * time.Millisecond)); orig > -int64(50*time.Millisecond) && orig < int64(50*time.Millisecond) {
		orig = 0 // no correction installed (nothing in a test process runs the NTP routine)
	}
	k := &c34Clock{orig: orig, cur: orig, timeout: timeout, t0: time.Now()}
	k.advance(time.Duration(deltaSec) * time.Second)
	return k
}

func (k *c34Clock) advance(d time.Duration) {
	k.cur += int64(d)
	k.adv += d
	// SetTimeDelta silently resets anything beyond +-300 s to 0; the generator keeps 10 s away from that edge, and a
	// value that would still leave the range by less than a second is clamped instead of giving up
	const lim = int64(299500 * time.Millisecond)
	switch {
	case k.cur > lim && k.cur <= lim+int64(1500*time.Millisecond):
		k.cur = lim
	case k.cur < -lim && k.cur >= -lim-int64(1500*time.Millisecond):
		k.cur = -lim
	case k.cur > lim || k.cur < -lim:
		lib.Inconclusive("harness: clock correction %d ns outside what SetTimeDelta accepts", k.cur)
	}
	types.SetTimeDelta(k.cur)
}

func (k *c34Clock) restore()     { types.SetTimeDelta(k.orig) }
func (k *c34Clock) arrived()     { k.t0, k.adv = time.Now(), 0 }
func (k *c34Clock) pastTimeout() { k.advance(k.timeout + k.timeout/2) }

// early: called before an assertion that the block has NOT timed out; gives up when real time ate the margin.
func (k *c34Clock) early() {
	if e := time.Since(k.t0) + k.adv; e > k.timeout-c34Margin {
		lib.Inconclusive("case ran too slowly: %v of protocol time since arrival, timeout %v", e, k.timeout)
	}
}

// c34GenDelta: 0 in half of the cases, otherwise within [-290 s, hi] with values around the timeout; hi is the largest
// correction that leaves room for the advances the case will add and 10 s of margin (SetTimeDelta accepts +-300 s).
func c34GenDelta(t *rapid.T, timeout time.Duration, hi int) int {
	if rapid.Bool().Draw(t, "clockCorrected") {
		T := int(timeout / time.Second)
		d := rapid.SampledFrom([]int{1, -1, 5, -5, T / 2, -T / 2, T - 1, -(T - 1), T, -T, T + 1, -(T + 1), 2 * T, -2 * T, hi, -289, -290,
			rapid.IntRange(-290, hi).Draw(t, "anyDelta")}).Draw(t, "delta")
		if d > hi {
			d = hi
		}
		if d != 0 {
			return d
		}
	}
	return 0
}

type c34Unit struct {
	start, size int
	poolTx      *types.Transaction // what the pool stores for this unit
}

func c34Gen(t *rapid.T) c34Case {
	c := c34Case{N: rapid.IntRange(2, 30).Draw(t, "n"), Salt: rapid.IntRange(0, 1<<20).Draw(t, "salt")}
	// groups at drawn positions (every index >= 1 can start one)
	for i := 1; i < c.N; {
		if c.N-i >= 2 && rapid.IntRange(0, 3).Draw(t, "group?") == 0 {
			sz := rapid.IntRange(2, minInt(5, c.N-i)).Draw(t, "gsize")
			c.Groups = append(c.Groups, [2]int{i, sz})
			i += sz
		} else {
			i++
		}
	}
	units := c.N - 1
	for _, g := range c.Groups {
		units -= g[1] - 1
	}
	c.Pattern = rapid.SampledFrom([]string{"all", "none", "allButOne", "onlyGroups", "onlySingles", "random", "random"}).Draw(t, "pattern")
	c.Present = make([]bool, units)
	hole := rapid.IntRange(0, units-1).Draw(t, "hole")
	isGroupUnit := c34GroupUnits(c)
	for u := range c.Present {
		switch c.Pattern {
		case "all":
			c.Present[u] = true
		case "none":
		case "allButOne":
			c.Present[u] = u != hole
		case "onlyGroups":
			c.Present[u] = isGroupUnit[u]
		case "onlySingles":
			c.Present[u] = !isGroupUnit[u]
		default:
			c.Present[u] = rapid.Bool().Draw(t, "present")
		}
	}
	c.Arrive = rapid.SampledFrom([]string{"before", "before", "after", "never"}).Draw(t, "arrive")
	c.Batches = rapid.IntRange(1, 3).Draw(t, "batches")
	c.Idle = rapid.IntRange(0, 2).Draw(t, "idle")
	c.Drive = rapid.SampledFrom([]string{"direct", "direct", "loop"}).Draw(t, "drive")
	c.Height = rapid.Int64Range(2, 1000).Draw(t, "height")
	c.Early = rapid.SampledFrom([]int{0, 0, 20, 45}).Draw(t, "early")
	c.Delta = c34GenDelta(t, c34Timeout, 290-45-90)
	return c
}

func minInt(a, b int) int {
	if a < b {
		return a
	}
	return b
}

func c34GroupUnits(c c34Case) []bool {
	var out []bool
	gi := 0
	for i := 1; i < c.N; {
		if gi < len(c.Groups) && c.Groups[gi][0] == i {
			out = append(out, true)
			i += c.Groups[gi][1]
			gi++
		} else {
			out = append(out, false)
			i++
		}
	}
	return out
}

// c34Build makes the miner's block and the pool form of each unit.
func c34Build(f *vfFix, c c34Case) (*types.Block, []c34Unit) {
	txs := make([]*types.Transaction, c.N)
	txs[0] = vfTx(fmt.Sprintf("miner-%d-%d", c.Salt, c.Height), 0)
	var units []c34Unit
	gi := 0
	for i := 1; i < c.N; {
		if gi < len(c.Groups) && c.Groups[gi][0] == i {
			sz := c.Groups[gi][1]
			var g []*types.Transaction
			for j := 0; j < sz; j++ {
				g = append(g, vfTx(fmt.Sprintf("g-%d-%d-%d", c.Salt, i, j), 1000000))
			}
			grp, err := types.CreateTxGroup(g, f.cfg.GetMinTxFeeRate())
			if err != nil {
				lib.Inconclusive("CreateTxGroup: %v", err)
			}
			copy(txs[i:], grp.Txs)
			units = append(units, c34Unit{start: i, size: sz, poolTx: grp.Tx()})
			i += sz
			gi++
		} else {
			txs[i] = vfTx(fmt.Sprintf("s-%d-%d", c.Salt, i), 1000000)
			units = append(units, c34Unit{start: i, size: 1, poolTx: txs[i]})
			i++
		}
	}
	return f.vfBlock(c.Height, txs), units
}

// c34Same is the identity oracle: same transactions at the same positions, same hash.
func c34Same(f *vfFix, want, got *types.Block) string {
	if got == nil {
		return "nil block"
	}
	if !bytes.Equal(want.Hash(f.cfg), got.Hash(f.cfg)) {
		return fmt.Sprintf("block hash %x, original %x", got.Hash(f.cfg), want.Hash(f.cfg))
	}
	if len(got.Txs) != len(want.Txs) {
		return fmt.Sprintf("%d transactions, original has %d", len(got.Txs), len(want.Txs))
	}
	for i := range want.Txs {
		if got.Txs[i] == nil {
			return fmt.Sprintf("transaction %d is nil", i)
		}
		if !bytes.Equal(types.Encode(want.Txs[i]), types.Encode(got.Txs[i])) {
			return fmt.Sprintf("transaction at position %d differs (hash %x, original %x)", i, got.Txs[i].Hash(), want.Txs[i].Hash())
		}
	}
	if root := merkle.CalcMerkleRoot(f.cfg, got.Height, got.Txs); !bytes.Equal(root, want.TxHash) {
		return fmt.Sprintf("transaction root of rebuilt list %x, header says %x", root, want.TxHash)
	}
	return ""
}

func c34Run(t lib.TB, test string, c c34Case) {
	f := vfGet()
	f.reset()
	v := f.newProto(int64(c34Timeout / time.Millisecond))
	defer v.close()
	clock := c34StartClock(c.Delta, c34Timeout)
	defer clock.restore()
	fail := func(format string, a ...interface{}) { lib.Violation(t, "C34", test, c, format, a...) }
	block, units := c34Build(f, c)
	sender, publisher := f.peers[0], f.peers[1]
	var missing []int
	for u, un := range units {
		if c.Present[u] {
			f.poolAdd(un.poolTx)
		} else {
			missing = append(missing, u)
		}
	}
	// the light block arrives on the real receive path (decode, duplicate filter, addLtBlock)
	lt := v.buildLtBlock(block)
	raw := v.psub.encodeMsg(lt, new([]byte))
	clock.arrived()
	v.psub.handleSubMsg(vfOneMsg(psLtBlockTopic, raw, sender, publisher))
	pendLen := func() int {
		v.ltB.pdBlockLock.Lock()
		defer v.ltB.pdBlockLock.Unlock()
		return v.ltB.pendBlockList.Len()
	}
	expectPosted := func(when string, n int) {
		got := f.postedBlocks()
		if len(got) != n {
			fail("%s: %d blocks handed to the blockchain module, expected %d (%d of %d units missing from the pool)", when, len(got), n, len(missing), len(units))
		}
		for _, bp := range got {
			if d := c34Same(f, block, bp.Block); d != "" {
				fail("%s: rebuilt block is not identical to the original: %s", when, d)
			}
		}
	}
	noRequest := func(when string) {
		for _, m := range v.published() {
			fail("%s: unexpected message published to the network on topic %s", when, m.topic)
		}
	}
	if len(missing) == 0 {
		expectPosted("all transactions in the pool", 1)
		if pendLen() != 0 {
			fail("block rebuilt at once but %d entries are pending", pendLen())
		}
		if tb := v.ltB.buildPendList(); len(tb) != 0 {
			fail("a later background pass reported %d timed-out blocks", len(tb))
		}
		expectPosted("after one more background pass", 1)
		noRequest("complete block")
		return
	}
	expectPosted("on arrival with transactions missing", 0)
	if pendLen() != 1 {
		fail("light block with %d missing units: pending list has %d entries, expected 1", len(missing), pendLen())
	}
	clock.advance(time.Duration(c.Early) * time.Second)
	for i := 0; i < c.Idle; i++ {
		tb := v.ltB.buildPendList()
		clock.early()
		if len(tb) != 0 {
			fail("background pass %d, %d s after arrival (timeout %v), reported a timed-out block", i, c.Early, c34Timeout)
		}
		expectPosted("while waiting", 0)
	}
	arrive := func(when string, wantPosted int) {
		for b := 0; b < c.Batches; b++ {
			remaining := 0
			for k, u := range missing {
				if k%c.Batches == b {
					f.poolAdd(units[u].poolTx)
				} else if k%c.Batches > b {
					remaining++
				}
			}
			tb := v.ltB.buildPendList()
			if wantPosted > 0 {
				clock.early()
			}
			if len(tb) != 0 {
				fail("%s: background pass reported a timed-out block", when)
			}
			if remaining > 0 {
				expectPosted(when+" (some still missing)", 0)
			}
		}
		expectPosted(when, wantPosted)
	}
	if c.Arrive == "before" {
		arrive("missing transactions arrived before the timeout", 1)
		if pendLen() != 0 {
			fail("block rebuilt after arrival but still pending")
		}
		v.ltB.buildPendList()
		expectPosted("one pass after the rebuild", 1)
		noRequest("rebuilt before the timeout")
		return
	}
	// the timeout passes: 1.5 timeouts of protocol time on top of whatever has passed
	clock.pastTimeout()
	if c.Drive == "direct" {
		tb := v.ltB.buildPendList()
		if len(tb) != 1 || tb[0].block.GetHeight() != c.Height || tb[0].fromPeer != sender {
			fail("timeout passed with %d units missing: background pass reported %d timed-out blocks, expected this one", len(missing), len(tb))
		}
	} else {
		atomic.StoreInt64(&v.currHeight, c.Height-1)
		done := make(chan struct{})
		go func() { v.ltB.pendBlockLoop(); close(done) }()
		for i := 0; pendLen() != 0; i++ {
			if i > 3000 {
				lib.Inconclusive("pendBlockLoop did not take the timed-out block within 60s of real time")
			}
			time.Sleep(20 * time.Millisecond)
		}
		v.cancel()
		select {
		case <-done:
		case <-time.After(60 * time.Second):
			lib.Inconclusive("pendBlockLoop did not stop")
		}
		msgs := v.published()
		want := &types.PeerPubSubMsg{MsgID: blockReqMsgID, ProtoMsg: types.Encode(&types.ReqInt{Height: c.Height})}
		n := 0
		for _, m := range msgs {
			pm, ok := m.msg.(*types.PeerPubSubMsg)
			if m.topic == v.getPeerTopic(sender) && ok && pm.MsgID == want.MsgID && bytes.Equal(pm.ProtoMsg, want.ProtoMsg) {
				n++
			} else {
				fail("after the timeout an unexpected message was published on topic %s", m.topic)
			}
		}
		if n != 1 {
			fail("timeout passed with %d units missing: %d block requests for height %d published to the sender, expected 1", len(missing), n, c.Height)
		}
	}
	if pendLen() != 0 {
		fail("timed-out block still pending")
	}
	expectPosted("after the timeout", 0)
	if c.Arrive == "after" && c.Drive == "direct" {
		arrive("missing transactions arrived after the timeout", 0)
	}
}

func c34Classes(c c34Case) (nontrivial bool) {
	missing := 0
	for _, p := range c.Present {
		if !p {
			missing++
		}
	}
	lateGroup := false
	for _, g := range c.Groups {
		if g[0] != 1 {
			lateGroup = true
		}
	}
	lib.Class("pattern_" + c.Pattern)
	c34DeltaClass(c.Delta, c34Timeout)
	switch {
	case missing == 0:
		lib.Class("complete")
	case c.Arrive == "before":
		lib.Class("arrive_before_timeout")
	default:
		lib.Class("timeout_" + c.Drive)
	}
	if lateGroup {
		lib.Class("group_not_at_index_1")
	}
	if len(c.Groups) == 0 {
		lib.Class("no_group")
	}
	return lateGroup && missing == 1
}

// Non-trivial (DESIGN C34, adapted to the pool's unit granularity): the block has a group that does not start at
// index 1 and exactly one unit (single transaction or whole group) is missing from the pool on arrival.
func TestPropLightBlockRebuild(t *testing.T) {
	defer lib.Flush()
	rapid.Check(t, func(t *rapid.T) {
		c := c34Gen(t)
		lib.Eval()
		nt := c34Classes(c)
		c34Run(t, "TestPropLightBlockRebuild", c)
		if nt {
			lib.NonTrivialCase(c)
		}
	})
}

// Fixed regression cases (no generator): the package's own scenario shapes plus groups at the last positions.
func TestRegress_C34Fixed(t *testing.T) {
	defer lib.Flush()
	cases := []c34Case{
		{N: 4, Groups: [][2]int{{2, 2}}, Pattern: "all", Present: []bool{true, true}, Arrive: "before", Batches: 1, Drive: "direct", Height: 10},
		{N: 4, Groups: [][2]int{{2, 2}}, Pattern: "allButOne", Present: []bool{true, false}, Arrive: "before", Batches: 1, Idle: 1, Drive: "direct", Height: 10, Salt: 1},
		{N: 4, Groups: [][2]int{{2, 2}}, Pattern: "allButOne", Present: []bool{true, false}, Arrive: "never", Batches: 1, Drive: "loop", Height: 10, Salt: 2},
		{N: 6, Groups: [][2]int{{1, 2}, {4, 2}}, Pattern: "none", Present: []bool{false, false, false}, Arrive: "after", Batches: 2, Drive: "direct", Height: 7, Salt: 3},
		// node clock behind / ahead of real time by about one pending timeout (NTP correction installed before arrival)
		{N: 4, Groups: [][2]int{{2, 2}}, Pattern: "allButOne", Present: []bool{true, false}, Arrive: "before", Batches: 1, Idle: 2, Drive: "direct", Height: 10, Salt: 4, Delta: 61, Early: 45},
		{N: 4, Groups: [][2]int{{2, 2}}, Pattern: "allButOne", Present: []bool{true, false}, Arrive: "never", Batches: 1, Idle: 1, Drive: "direct", Height: 10, Salt: 5, Delta: -61},
		{N: 4, Groups: [][2]int{{2, 2}}, Pattern: "allButOne", Present: []bool{false, true}, Arrive: "never", Batches: 1, Drive: "loop", Height: 10, Salt: 6, Delta: 150},
	}
	for _, c := range cases {
		lib.Eval()
		c34Run(t, "TestRegress_C34Fixed", c)
	}
}

// ---------------------------------------------------------------- several light blocks at one height

// Competing blocks of one height (fork blocks relayed by different peers, or the same block relayed twice) are pending
// together or one after the other, each with its own missing transactions.  The property is stated per light block, so
// the oracle is evaluated per block: completed => its identical block is handed over exactly once; timed out (the
// height is above the local height throughout) => exactly one blockReqMsgID request for that height goes to THAT
// block's sender.  The real pendBlockLoop runs for the whole case (state it keeps between ticks is part of what is
// checked); the harness only waits (watchdog => inconclusive) until the pending list has the expected length, then
// stops the loop and reads the outgoing channel up to a marker.
type c34Sibling struct {
	Block  c34Case `json:"block"`  // layout / availability of this block (Height, Arrive, Drive, Idle are ignored)
	Fate   string  `json:"fate"`   // complete | arrive | timeout
	Sender int     `json:"sender"` // index of the relaying peer (distinct per sibling)
	DupOf  int     `json:"dupOf"`  // >= 0: the same block as sibling DupOf, relayed by another peer
}

type c34MultiCase struct {
	Height     int64        `json:"height"`
	Sequential bool         `json:"sequential"` // each sibling is resolved before the next arrives
	Siblings   []c34Sibling `json:"siblings"`
	Delta      int          `json:"clockDeltaSec"` // clock correction in force for the whole case
}

func c34GenMulti(t *rapid.T) c34MultiCase {
	c := c34MultiCase{Height: rapid.Int64Range(2, 1000).Draw(t, "height"), Sequential: rapid.Bool().Draw(t, "sequential")}
	c.Delta = c34GenDelta(t, c34MultiTimeout, 290-3*30)
	k := rapid.IntRange(2, 3).Draw(t, "siblings")
	senders := rapid.Permutation([]int{0, 1, 2}).Draw(t, "senders")
	for i := 0; i < k; i++ {
		s := c34Sibling{Sender: senders[i], DupOf: -1, Fate: rapid.SampledFrom([]string{"complete", "arrive", "timeout", "timeout", "timeout"}).Draw(t, "fate")}
		if i > 0 && rapid.IntRange(0, 4).Draw(t, "dup") == 0 {
			s.DupOf = rapid.IntRange(0, i-1).Draw(t, "dupOf")
			for c.Siblings[s.DupOf].DupOf >= 0 {
				s.DupOf = c.Siblings[s.DupOf].DupOf
			}
		} else {
			b := c34Gen(t)
			b.N, b.Groups, b.Present = minInt(b.N, 8), nil, nil
			for j := 1; j < b.N; {
				if b.N-j >= 2 && rapid.IntRange(0, 3).Draw(t, "group?") == 0 {
					sz := rapid.IntRange(2, minInt(3, b.N-j)).Draw(t, "gsize")
					b.Groups = append(b.Groups, [2]int{j, sz})
					j += sz
				} else {
					j++
				}
			}
			units := len(c34GroupUnits(b))
			hole := rapid.IntRange(0, units-1).Draw(t, "hole")
			for u := 0; u < units; u++ {
				b.Present = append(b.Present, s.Fate == "complete" || (u != hole && rapid.Bool().Draw(t, "present")))
			}
			b.Height, b.Salt = c.Height, b.Salt*4+i
			s.Block = b
		}
		c.Siblings = append(c.Siblings, s)
	}
	return c
}

func c34RunMulti(t lib.TB, test string, c c34MultiCase) {
	f := vfGet()
	f.reset()
	v := f.newProto(int64(c34MultiTimeout / time.Millisecond))
	defer v.close()
	clock := c34StartClock(c.Delta, c34MultiTimeout)
	defer clock.restore()
	fail := func(format string, a ...interface{}) { lib.Violation(t, "C34", test, c, format, a...) }
	atomic.StoreInt64(&v.currHeight, c.Height-1)
	pendLen := func() int {
		v.ltB.pdBlockLock.Lock()
		defer v.ltB.pdBlockLock.Unlock()
		return v.ltB.pendBlockList.Len()
	}
	waitPend := func(n int, what string) {
		for i := 0; pendLen() != n; i++ {
			if i > 6000 {
				lib.Inconclusive("pendBlockLoop: %s (pending %d, expected %d) not reached within 60s", what, pendLen(), n)
			}
			time.Sleep(10 * time.Millisecond)
		}
	}
	done := make(chan struct{})
	go func() { v.ltB.pendBlockLoop(); close(done) }()

	blocks := make([]*types.Block, len(c.Siblings))
	units := make([][]c34Unit, len(c.Siblings))
	wantPost := map[string]*types.Block{} // block hash -> block that must be handed over exactly once
	wantReq := map[string]int{}           // peer topic -> expected number of requests for c.Height
	expectPending := 0
	for i, s := range c.Siblings {
		if s.DupOf >= 0 {
			// the same block again from another peer: the duplicate filter drops it; nothing more is expected for it
			lt := v.buildLtBlock(blocks[s.DupOf])
			v.psub.handleSubMsg(vfOneMsg(psLtBlockTopic, v.psub.encodeMsg(lt, new([]byte)), f.peers[s.Sender], f.peers[s.Sender]))
			lib.Class("sibling_duplicate")
			continue
		}
		blocks[i], units[i] = c34Build(f, s.Block)
		var missing []int
		for u, un := range units[i] {
			if s.Block.Present[u] {
				f.poolAdd(un.poolTx)
			} else {
				missing = append(missing, u)
			}
		}
		lt := v.buildLtBlock(blocks[i])
		if expectPending == 0 {
			clock.arrived() // the oldest entry that is to stay pending decides how much real time the case may take
		}
		arrivedAt := time.Now()
		v.psub.handleSubMsg(vfOneMsg(psLtBlockTopic, v.psub.encodeMsg(lt, new([]byte)), f.peers[s.Sender], f.peers[s.Sender]))
		key := string(blocks[i].Hash(f.cfg))
		lib.Class("sibling_" + s.Fate)
		switch {
		case len(missing) == 0:
			wantPost[key] = blocks[i]
		case s.Fate == "arrive":
			// its transactions arrive well before the timeout (no protocol time is advanced while it waits)
			wantPost[key] = blocks[i]
			for _, u := range missing {
				f.poolAdd(units[i][u].poolTx)
			}
			waitPend(expectPending, "sibling rebuilt after its transactions arrived")
			if time.Since(arrivedAt) > c34MultiTimeout-c34Margin {
				lib.Inconclusive("case ran too slowly: %v of real time before the sibling was rebuilt, timeout %v", time.Since(arrivedAt), c34MultiTimeout)
			}
			clock.early() // nor may the older entries that are to stay pending have aged out meanwhile
		default: // timeout
			wantReq[v.getPeerTopic(f.peers[s.Sender])]++
			expectPending++
			if c.Sequential {
				clock.pastTimeout()
				expectPending--
				waitPend(expectPending, "timed-out sibling removed")
			}
		}
	}
	if expectPending > 0 {
		clock.early() // up to here nothing may have timed out on real time alone
		clock.pastTimeout()
		waitPend(0, "timed-out siblings removed")
	}
	v.cancel()
	select {
	case <-done:
	case <-time.After(60 * time.Second):
		lib.Inconclusive("pendBlockLoop did not stop")
	}
	// per block: handed over exactly once and identical / requested from its own sender exactly once
	got := map[string]int{}
	for _, bp := range f.postedBlocks() {
		key := string(bp.Block.Hash(f.cfg))
		want, ok := wantPost[key]
		if !ok {
			fail("a block that was never completed (hash %x) was handed to the blockchain module", bp.Block.Hash(f.cfg))
		}
		if d := c34Same(f, want, bp.Block); d != "" {
			fail("rebuilt block is not identical to the original: %s", d)
		}
		got[key]++
	}
	for key := range wantPost {
		if got[key] != 1 {
			fail("completed light block %x handed to the blockchain module %d times, expected once", key, got[key])
		}
	}
	wantBody := types.Encode(&types.ReqInt{Height: c.Height})
	reqs := map[string]int{}
	for _, m := range v.published() {
		pm, ok := m.msg.(*types.PeerPubSubMsg)
		if !ok || pm.MsgID != blockReqMsgID || !bytes.Equal(pm.ProtoMsg, wantBody) {
			fail("unexpected message published on topic %s", m.topic)
		}
		reqs[m.topic]++
	}
	for topic, n := range wantReq {
		if reqs[topic] != n {
			fail("light block at height %d from the peer of topic %s timed out: %d full-block requests sent to that sender, expected %d (requests seen: %v)", c.Height, topic, reqs[topic], n, reqs)
		}
	}
	for topic, n := range reqs {
		if wantReq[topic] == 0 {
			fail("%d full-block requests sent to %s, whose light block did not time out", n, topic)
		}
	}
}

// Non-trivial: at least two different light blocks of the height time out (each must get its own request).
func TestPropLightBlockSameHeight(t *testing.T) {
	defer lib.Flush()
	rapid.Check(t, func(t *rapid.T) {
		c := c34GenMulti(t)
		lib.Eval()
		timeouts := 0
		for _, s := range c.Siblings {
			if s.DupOf < 0 && s.Fate == "timeout" {
				timeouts++
			}
		}
		c34DeltaClass(c.Delta, c34MultiTimeout)
		if c.Sequential {
			lib.Class("siblings_sequential")
		} else {
			lib.Class("siblings_together")
		}
		c34RunMulti(t, "TestPropLightBlockSameHeight", c)
		if timeouts >= 2 {
			lib.Class("two_or_more_timeouts_at_one_height")
			lib.NonTrivialCase(c)
		}
	})
}

func c34DeltaClass(delta int, timeout time.Duration) {
	T := int(timeout / time.Second)
	switch {
	case delta == 0:
		lib.Class("clock_delta_0")
	case delta >= T:
		lib.Class("clock_behind_by_timeout_or_more")
	case delta > 0:
		lib.Class("clock_behind_less_than_timeout")
	case delta <= -T:
		lib.Class("clock_ahead_by_timeout_or_more")
	default:
		lib.Class("clock_ahead_less_than_timeout")
	}
}
