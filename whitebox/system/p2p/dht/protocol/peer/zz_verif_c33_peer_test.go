package peer

// C33 (peer info / version part): version and peer-info requests from a peer, and a peer's REPLIES to this node's own
// version / peer-info queries (height and header announcements), can never crash the node.
//
// Production call graph (peer.go / handler.go / peerinfo.go / protocol/wrapper.go):
//   - handleStreamVersion, handleStreamVersionOld, handleStreamPeerInfo, handleStreamPeerInfoOld, handlerStreamStatistical
//     are registered through protocol.RegisterStreamHandler (HandlerWithClose: recover + reset); libp2p runs the wrapped
//     handler in a bare goroutine, so a panic escaping the WRAPPED handler kills the node.
//   - detectNodeAddr (goroutine, no recover) -> queryVersion: handles the remote's P2PVersion reply.
//   - refreshPeerInfo (ticker goroutine, no recover; one more bare goroutine per peer) -> queryPeerInfo ->
//     checkVersionLimit -> PeerInfoManager.Refresh / blacklist: handles the remote's types.Peer reply.
//   - checkOutBound (ticker goroutine, no recover): walks the stored peer-supplied infos.
//   - handleEventPeerInfo (event handler, wrapped in EventHandlerWithRecover): hands them to the blockchain module.
// The harness captures the wrapped stream handlers from Host.SetStreamHandler and feeds them in-memory streams; the
// client-side functions get their remote replies from the in-memory stream returned by Host.NewStream.  refreshPeerInfo
// is called as is: a panic in its per-peer goroutine cannot be caught and ends the test process (the driver reports
// that as a violation); the case is written to the replay file before it runs.

import (
	"bytes"
	"context"
	"crypto/ed25519"
	"crypto/sha256"
	"encoding/binary"
	"encoding/json"
	"errors"
	"fmt"
	"os"
	"strings"
	"sync"
	"testing"
	"time"

	"github.com/33cn/chain33/client"
	"github.com/33cn/chain33/common/log/log15"
	"github.com/33cn/chain33/queue"
	"github.com/33cn/chain33/system/p2p/dht/manage"
	"github.com/33cn/chain33/system/p2p/dht/protocol"
	p2pty "github.com/33cn/chain33/system/p2p/dht/types"
	"github.com/33cn/chain33/types"
	"github.com/libp2p/go-libp2p"
	kbt "github.com/libp2p/go-libp2p-kbucket"
	"github.com/libp2p/go-libp2p/core/crypto"
	"github.com/libp2p/go-libp2p/core/host"
	"github.com/libp2p/go-libp2p/core/network"
	"github.com/libp2p/go-libp2p/core/peer"
	core "github.com/libp2p/go-libp2p/core/protocol"
	"github.com/multiformats/go-multiaddr"
	"pgregory.net/rapid"
	"verifharness/lib"
)

// ---------------------------------------------------------------- in-memory stream / connection / host

type c33Conn struct{ remote peer.ID }

func (c *c33Conn) Close() error                       { return nil }
func (c *c33Conn) LocalPeer() peer.ID                 { return "" }
func (c *c33Conn) RemotePeer() peer.ID                { return c.remote }
func (c *c33Conn) RemotePublicKey() crypto.PubKey     { return nil }
func (c *c33Conn) ConnState() network.ConnectionState { return network.ConnectionState{} }
func (c *c33Conn) LocalMultiaddr() multiaddr.Multiaddr {
	return multiaddr.StringCast("/ip4/127.0.0.1/tcp/1")
}
func (c *c33Conn) RemoteMultiaddr() multiaddr.Multiaddr {
	return multiaddr.StringCast("/ip4/127.0.0.1/tcp/2")
}
func (c *c33Conn) Stat() network.ConnStats  { return network.ConnStats{} }
func (c *c33Conn) Scope() network.ConnScope { return nil }
func (c *c33Conn) ID() string               { return "c33-conn" }
func (c *c33Conn) NewStream(context.Context) (network.Stream, error) {
	return nil, errors.New("not supported")
}
func (c *c33Conn) GetStreams() []network.Stream { return nil }
func (c *c33Conn) IsClosed() bool               { return false }

type c33Stream struct {
	in    *bytes.Reader
	out   bytes.Buffer
	conn  *c33Conn
	proto core.ID
	reset bool
}

func (s *c33Stream) Read(p []byte) (int, error)       { return s.in.Read(p) }
func (s *c33Stream) Write(p []byte) (int, error)      { return s.out.Write(p) }
func (s *c33Stream) Close() error                     { return nil }
func (s *c33Stream) CloseWrite() error                { return nil }
func (s *c33Stream) CloseRead() error                 { return nil }
func (s *c33Stream) Reset() error                     { s.reset = true; return nil }
func (s *c33Stream) SetDeadline(time.Time) error      { return nil }
func (s *c33Stream) SetReadDeadline(time.Time) error  { return nil }
func (s *c33Stream) SetWriteDeadline(time.Time) error { return nil }
func (s *c33Stream) ID() string                       { return "c33-stream" }
func (s *c33Stream) Protocol() core.ID                { return s.proto }
func (s *c33Stream) SetProtocol(id core.ID) error     { s.proto = id; return nil }
func (s *c33Stream) Stat() network.Stats              { return network.Stats{} }
func (s *c33Stream) Conn() network.Conn               { return s.conn }
func (s *c33Stream) Scope() network.StreamScope       { return nil }

type c33Host struct {
	host.Host
	mu       sync.Mutex
	handlers map[core.ID]network.StreamHandler
	reply    []byte
}

func (h *c33Host) SetStreamHandler(pid core.ID, handler network.StreamHandler) {
	h.mu.Lock()
	h.handlers[pid] = handler
	h.mu.Unlock()
}

func (h *c33Host) NewStream(ctx context.Context, p peer.ID, pids ...core.ID) (network.Stream, error) {
	h.mu.Lock()
	defer h.mu.Unlock()
	return &c33Stream{in: bytes.NewReader(h.reply), conn: &c33Conn{remote: p}, proto: pids[0]}, nil
}

type c33BlackList struct{}

func (c33BlackList) Add(string, time.Duration) {}
func (c33BlackList) Has(string) bool           { return false }
func (c33BlackList) List() *types.Blacklist    { return &types.Blacklist{} }

// ---------------------------------------------------------------- fixture

type c33Fix struct {
	p      *Protocol
	h      *c33Host
	remote peer.ID
	cli    queue.Client
}

var (
	c33Once sync.Once
	c33F    *c33Fix
)

func c33Key(seed byte) crypto.PrivKey {
	s := sha256.Sum256([]byte{'p', 'i', seed})
	k, err := crypto.UnmarshalEd25519PrivateKey(ed25519.NewKeyFromSeed(s[:]))
	if err != nil {
		panic(err)
	}
	return k
}

func c33Get() *c33Fix {
	c33Once.Do(func() {
		log15.Root().SetHandler(log15.DiscardHandler())
		cfg := types.NewChain33Config(types.GetDefaultCfgstring())
		log15.Root().SetHandler(log15.DiscardHandler())
		q := queue.New("verif-c33-peer")
		q.SetConfig(cfg)
		go q.Start()
		real, err := libp2p.New(libp2p.NoListenAddrs, libp2p.Identity(c33Key(0)))
		if err != nil {
			lib.Inconclusive("libp2p host: %v", err)
		}
		f := &c33Fix{h: &c33Host{Host: real, handlers: map[core.ID]network.StreamHandler{}}, cli: q.Client()}
		f.remote, _ = peer.IDFromPrivateKey(c33Key(1))
		for _, topic := range []string{mempool, blockchain} {
			cli := q.Client()
			cli.Sub(topic)
			go func() {
				for msg := range cli.Recv() {
					switch msg.Ty {
					case types.EventGetMempoolSize:
						msg.Reply(cli.NewMessage("", types.EventMempoolSize, &types.MempoolSize{Size: 3}))
					case types.EventGetLastHeader:
						msg.Reply(cli.NewMessage("", types.EventHeader, &types.Header{Height: 1000}))
					case types.EventSnowmanLastChoice:
						msg.Reply(cli.NewMessage("", types.EventSnowmanLastChoice, &types.SnowChoice{Height: 990}))
					}
				}
			}()
		}
		api, _ := client.New(q.Client(), nil)
		rt, err := kbt.NewRoutingTable(20, kbt.ConvertPeerID(real.ID()), time.Minute, real.Peerstore(), time.Hour, nil)
		if err != nil {
			lib.Inconclusive("routing table: %v", err)
		}
		if _, err := rt.TryAddPeer(f.remote, true, false); err != nil {
			lib.Inconclusive("routing table add: %v", err)
		}
		ctx := context.Background()
		env := &protocol.P2PEnv{Ctx: ctx, ChainCfg: cfg, QueueClient: q.Client(), Host: f.h, API: api,
			SubConfig: &p2pty.P2PSubConfig{Channel: 7, Port: 13803}, RoutingTable: rt, ConnBlackList: c33BlackList{},
			PeerInfoManager: manage.NewPeerInfoManager(ctx, real, q.Client()), ConnManager: &connManager{}}
		// the stream-handler registrations of InitProtocol
		f.p = &Protocol{P2PEnv: env}
		protocol.RegisterStreamHandler(f.p.Host, peerInfoOld, f.p.handleStreamPeerInfoOld)
		protocol.RegisterStreamHandler(f.p.Host, peerInfo, f.p.handleStreamPeerInfo)
		protocol.RegisterStreamHandler(f.p.Host, peerVersionOld, f.p.handleStreamVersionOld)
		protocol.RegisterStreamHandler(f.p.Host, peerVersion, f.p.handleStreamVersion)
		protocol.RegisterStreamHandler(f.p.Host, statisticalInfo, f.p.handlerStreamStatistical)
		c33F = f
	})
	return c33F
}

func c33StreamHeader() []byte {
	s := &c33Stream{in: bytes.NewReader(nil), conn: &c33Conn{}}
	_ = protocol.WriteStream(&types.ReqNil{}, s)
	return s.out.Bytes()[:17]
}

func c33Frame(body []byte) []byte {
	var l [4]byte
	binary.BigEndian.PutUint32(l[:], uint32(len(body)))
	return append(append(append([]byte{}, c33StreamHeader()...), l[:]...), body...)
}

func c33Unframe(b []byte, m types.Message) error {
	return protocol.ReadStream(m, &c33Stream{in: bytes.NewReader(b), conn: &c33Conn{}})
}

// ---------------------------------------------------------------- cases

var c33Addrs = []string{"", "/ip4/8.8.8.8/tcp/13802", "/ip4/8.8.8.8/tcp/x", "/ip4/8.8.8.8/tcp/80/garbage", "/ip4/8.8.8.8/tcp/80/p2p/notanid",
	"/ip4/999.1.1.1/tcp/1", "/ip4/10.0.0.1/tcp/13802", "////////", "/ip6/2001:db8::1/tcp/1", "8.8.8.8", "/ip4/1.2.3.4/udp/99999999999999999999", "/dns4/" + strings.Repeat("a", 400) + "/tcp/1"}

var c33Versions = []string{"", "6.0.0@1.0.0", "1.68.0-a612c9a6@6.8.9", "1.68.0-a612c9a6@6.8", "x@", "@", "@@", "a@b.c.d", "1@9999999999999999999999.1.1", "1@-1.-1.-1", strings.Repeat("9.", 300) + "@" + strings.Repeat("9.", 300)}

type c33Step struct {
	Op     string `json:"op"` // serve | queryVersion | refresh | checkOutBound | peerList
	Proto  string `json:"proto,omitempty"`
	Shape  string `json:"shape,omitempty"` // ok | nilMessage | otherChannel | garbage | badHeader | hugeLength | empty | wrongType
	From   int    `json:"addrFrom,omitempty"`
	Recv   int    `json:"addrRecv,omitempty"`
	Name   string `json:"name,omitempty"` // refresh: self-reported name: own | other | junk | empty
	NoHdr  bool   `json:"noHeader,omitempty"`
	Height int64  `json:"height,omitempty"`
	Ver    int    `json:"version,omitempty"`
	Limit  string `json:"verLimit,omitempty"` // local configuration VerLimit while this reply is handled
	Seed   int    `json:"seed,omitempty"`
}

type c33Case struct {
	Steps []c33Step `json:"steps"`
}

func c33Gen(t *rapid.T) c33Case {
	var c c33Case
	n := rapid.IntRange(1, 6).Draw(t, "steps")
	for i := 0; i < n; i++ {
		s := c33Step{Op: rapid.SampledFrom([]string{"serve", "serve", "queryVersion", "refresh", "refresh", "checkOutBound", "peerList"}).Draw(t, "op"),
			Shape: rapid.SampledFrom([]string{"ok", "ok", "ok", "ok", "nilMessage", "otherChannel", "garbage", "badHeader", "hugeLength", "empty", "wrongType"}).Draw(t, "shape"),
			From:  rapid.IntRange(0, len(c33Addrs)-1).Draw(t, "from"), Recv: rapid.IntRange(0, len(c33Addrs)-1).Draw(t, "recv"),
			Seed: rapid.IntRange(0, 255).Draw(t, "seed")}
		switch s.Op {
		case "serve":
			s.Proto = rapid.SampledFrom([]string{peerVersion, peerVersionOld, peerInfoOld, peerInfo, statisticalInfo}).Draw(t, "proto")
		case "refresh":
			s.Name = rapid.SampledFrom([]string{"own", "own", "other", "junk", "empty"}).Draw(t, "name")
			s.NoHdr = rapid.IntRange(0, 2).Draw(t, "noHeader") == 0
			s.Height = rapid.SampledFrom([]int64{0, 1, 400, 1000, 1 << 40, -1, -1 << 63, 1<<63 - 1}).Draw(t, "height")
			s.Ver = rapid.IntRange(0, len(c33Versions)-1).Draw(t, "ver")
			s.Limit = rapid.SampledFrom([]string{"", "", "6.8.9", "1", "x.y", "..", "6.8.9.1.1"}).Draw(t, "verLimit")
		case "checkOutBound":
			s.Height = rapid.SampledFrom([]int64{0, 511, 512, 2000, 1 << 41, 1<<63 - 1}).Draw(t, "height")
		}
		c.Steps = append(c.Steps, s)
	}
	return c
}

func (f *c33Fix) peerBytes(s c33Step) []byte {
	ver := &types.P2PVersion{Version: f.p.SubConfig.Channel, AddrFrom: c33Addrs[s.From], AddrRecv: c33Addrs[s.Recv], Timestamp: 1}
	if s.Shape == "otherChannel" {
		ver.Version++
	}
	var m types.Message
	switch {
	case s.Op == "refresh":
		name := map[string]string{"own": f.remote.Pretty(), "other": f.p.Host.ID().Pretty(), "junk": "\x00not/a/peer id", "empty": ""}[s.Name]
		p := &types.Peer{Name: name, Addr: "8.8.8.8", Port: 13802, Version: c33Versions[s.Ver], MempoolSize: 5, Self: s.Seed%7 == 3}
		if !s.NoHdr {
			p.Header = &types.Header{Height: s.Height, Hash: []byte("h")}
		}
		m = p
	case s.Op == "queryVersion" || s.Proto == peerVersion:
		m = ver
	case s.Proto == peerVersionOld && s.Shape == "nilMessage":
		m = &types.MessageP2PVersionReq{}
	case s.Proto == peerVersionOld:
		m = &types.MessageP2PVersionReq{Message: ver}
	default:
		m = &types.MessagePeerInfoReq{}
	}
	switch s.Shape {
	case "garbage":
		return c33Frame(bytes.Repeat([]byte{0x0a, 0xff, byte(s.Seed), 0x7f}, 1+s.Seed%9))
	case "badHeader":
		return append(bytes.Repeat([]byte{byte(s.Seed)}, 17), 0, 0, 0, 0)
	case "hugeLength":
		return append(append([]byte{}, c33StreamHeader()...), 0x7f, 0xff, 0xff, byte(s.Seed))
	case "empty":
		return nil
	case "wrongType":
		m = &types.Block{Height: int64(s.Seed), Txs: []*types.Transaction{{Execer: []byte("none"), Payload: []byte(c33Addrs[s.From])}}}
	}
	return c33Frame(types.Encode(m))
}

func c33Prewrite(test string, c interface{}) {
	if path := os.Getenv("VERIF_REPLAY_OUT"); path != "" {
		b, _ := json.MarshalIndent(map[string]interface{}{"property": "C33", "test": test, "case": c,
			"message": "the test process died while this case ran (a panic in a goroutine refreshPeerInfo starts cannot be caught)"}, "", " ")
		_ = os.WriteFile(path, b, 0o644)
	}
}

func c33Run(t lib.TB, test string, c c33Case) (nontrivial bool) {
	f := c33Get()
	guard := func(path string, fn func()) {
		defer func() {
			if e := recover(); e != nil {
				// listed finding C33-panictrace-breaks-recover-trimpath (see the download unit): the recover wrappers
				// re-panic in panicTrace in a -trimpath binary; exact signature = that slice panic out of a wrapped handler
				if (strings.HasPrefix(path, "registered stream handler") || strings.HasPrefix(path, "handleEventPeerInfo")) &&
					lib.Known("C33-panictrace-breaks-recover-trimpath") && strings.Contains(fmt.Sprint(e), "slice bounds out of range [-1:]") {
					lib.ExcludedKnown("C33-panictrace-breaks-recover-trimpath")
					return
				}
				lib.Violation(t, "C33", test, c, "panic escaped %s, which production runs without a recover above it (the node would die): %v", path, e)
			}
		}()
		fn()
	}
	serve := func(id core.ID, in []byte) *c33Stream {
		s := &c33Stream{in: bytes.NewReader(in), conn: &c33Conn{remote: f.remote}, proto: id}
		f.h.mu.Lock()
		h := f.h.handlers[id]
		f.h.mu.Unlock()
		guard("registered stream handler of "+string(id)+" (libp2p runs it in a bare goroutine)", func() { h(s) })
		return s
	}
	setReply := func(b []byte) {
		f.h.mu.Lock()
		f.h.reply = b
		f.h.mu.Unlock()
	}
	c33Prewrite(test, c)
	for _, s := range c.Steps {
		lib.Class("op_" + s.Op)
		switch s.Op {
		case "serve":
			if st := serve(core.ID(s.Proto), f.peerBytes(s)); st.reset {
				lib.Class("serve_recovered_panic")
			}
			nontrivial = nontrivial || s.Shape == "ok" || s.Shape == "nilMessage" || s.Shape == "otherChannel"
		case "queryVersion":
			setReply(f.peerBytes(s))
			guard("detectNodeAddr -> queryVersion", func() { _ = f.p.queryVersion(f.remote) })
			nontrivial = nontrivial || s.Shape == "ok"
		case "refresh":
			f.p.SubConfig.VerLimit = s.Limit
			setReply(f.peerBytes(s))
			guard("refreshPeerInfo", func() { f.p.refreshPeerInfo([]peer.ID{f.remote}) })
			f.p.SubConfig.VerLimit = ""
			// ... and every reader of what the reply left in the PeerInfoManager, as the ticker goroutines, the statistics
			// stream, the block download (PeerHeight) and the blockchain's peer-list request use it
			guard("PeerInfoManager readers (FetchAll / Fetch / PeerHeight / PeerMaxHeight)", func() {
				f.p.PeerInfoManager.FetchAll()
				f.p.PeerInfoManager.Fetch(f.remote)
				f.p.PeerInfoManager.PeerHeight(f.remote)
				f.p.PeerInfoManager.PeerMaxHeight()
			})
			for _, h := range []int64{0, 512, 2000, 1 << 41, 1<<63 - 1} {
				guard("checkOutBound (ticker goroutine)", func() { f.p.checkOutBound(h) })
			}
			serve(statisticalInfo, nil)
			pm := f.cli.NewMessage("p2p", types.EventPeerInfo, nil)
			guard("handleEventPeerInfo behind EventHandlerWithRecover", func() { protocol.EventHandlerWithRecover(f.p.handleEventPeerInfo)(pm) })
			if _, err := f.cli.WaitTimeout(pm, 60*time.Second); err != nil {
				lib.Inconclusive("no reply to EventPeerInfo: %v", err)
			}
			if s.Shape == "ok" || s.Shape == "nilMessage" || s.Shape == "otherChannel" {
				nontrivial = true
				lib.Class("peer_info_reply_decoded")
			}
		case "checkOutBound":
			guard("checkOutBound (ticker goroutine)", func() { f.p.checkOutBound(s.Height) })
		case "peerList":
			msg := f.cli.NewMessage("p2p", types.EventPeerInfo, nil)
			guard("handleEventPeerInfo behind EventHandlerWithRecover", func() { protocol.EventHandlerWithRecover(f.p.handleEventPeerInfo)(msg) })
			resp, err := f.cli.WaitTimeout(msg, 60*time.Second)
			if err != nil {
				lib.Inconclusive("no reply to EventPeerInfo: %v", err)
			}
			pl, ok := resp.GetData().(*types.PeerList)
			if !ok {
				lib.Violation(t, "C33", test, c, "EventPeerInfo answered with %T", resp.GetData())
			}
			for _, p := range pl.GetPeers() {
				if p.GetHeader() == nil {
					lib.Class("peerlist_entry_without_header_passed_on") // what BlockChain.fetchPeerList receives (see the blockchain unit)
				}
			}
		}
	}
	// afterwards well-formed traffic is still handled: a version request is answered, a peer-info reply is stored
	ok := c33Step{Op: "serve", Proto: peerVersion, Shape: "ok", From: 1, Recv: 1}
	var ans types.P2PVersion
	if st := serve(peerVersion, f.peerBytes(ok)); c33Unframe(st.out.Bytes(), &ans) != nil || ans.AddrRecv != "/ip4/127.0.0.1/tcp/2" {
		lib.Violation(t, "C33", test, c, "after the case a well-formed version request was not answered")
	}
	setReply(f.peerBytes(c33Step{Op: "refresh", Shape: "ok", Name: "own", Height: 1234, Ver: 1}))
	guard("refreshPeerInfo", func() { f.p.refreshPeerInfo([]peer.ID{f.remote}) })
	if got := f.p.PeerInfoManager.Fetch(f.remote); got.GetHeader().GetHeight() != 1234 {
		lib.Violation(t, "C33", test, c, "after the case a well-formed peer-info reply (height 1234) was not stored: %v", got)
	}
	return nontrivial
}

// Non-trivial: at least one of the peer's messages passes the stream framing and decodes as the expected message type
// (so the handler / reply processing behind the decoder runs).
func TestPropPeerInputPeerInfo(t *testing.T) {
	defer lib.Flush()
	rapid.Check(t, func(t *rapid.T) {
		c := c33Gen(t)
		lib.Eval()
		if c33Run(t, "TestPropPeerInputPeerInfo", c) {
			lib.NonTrivialCase(c)
		}
	})
}
