package download

// C33 (block download part): a peer's download requests and download replies can never crash the node.
//
// Production call graph (download.go / handler.go / protocol/wrapper.go / manager.go):
//   - handleStreamDownloadBlock, handleStreamDownloadBlockOld are registered through protocol.RegisterStreamHandler,
//     which wraps them in HandlerWithClose (recover + stream reset).  libp2p runs a stream handler in a bare goroutine
//     ("go handle(protoID, s)"), so a panic that escapes the WRAPPED handler kills the node.  The harness captures the
//     wrapped handlers from Host.SetStreamHandler and calls them with an in-memory stream holding the peer's bytes.
//   - downloadBlock -> downloadBlockFromPeerOld runs in goroutines started by handleEventDownloadBlock without any
//     recover: a panic while handling the peer's reply kills the node.  The harness calls downloadBlock itself; the
//     peer's reply bytes come from the in-memory stream that Host.NewStream hands out.
// The "blockchain" module is a responder on the real queue following BlockChain.getBlocks / ProcGetBlockDetailsMsg
// (an error VALUE as reply data when the requested range is not servable).

import (
	"bytes"
	"context"
	"crypto/ed25519"
	"crypto/sha256"
	"encoding/binary"
	"errors"
	"fmt"
	"os"
	"path/filepath"
	"strconv"
	"strings"
	"sync"
	"testing"
	"time"

	"github.com/33cn/chain33/common/log/log15"
	"github.com/33cn/chain33/queue"
	"github.com/33cn/chain33/system/p2p/dht/protocol"
	p2pty "github.com/33cn/chain33/system/p2p/dht/types"
	"github.com/33cn/chain33/types"
	"github.com/libp2p/go-libp2p"
	"github.com/libp2p/go-libp2p/core/crypto"
	"github.com/libp2p/go-libp2p/core/host"
	"github.com/libp2p/go-libp2p/core/network"
	"github.com/libp2p/go-libp2p/core/peer"
	core "github.com/libp2p/go-libp2p/core/protocol"
	"github.com/multiformats/go-multiaddr"
	"pgregory.net/rapid"
	"verifharness/lib"
)

// ---------------------------------------------------------------- in-memory stream / connection / host

type c33Conn struct{ remote peer.ID }

func (c *c33Conn) Close() error                       { return nil }
func (c *c33Conn) LocalPeer() peer.ID                 { return "" }
func (c *c33Conn) RemotePeer() peer.ID                { return c.remote }
func (c *c33Conn) RemotePublicKey() crypto.PubKey     { return nil }
func (c *c33Conn) ConnState() network.ConnectionState { return network.ConnectionState{} }
func (c *c33Conn) LocalMultiaddr() multiaddr.Multiaddr {
	return multiaddr.StringCast("/ip4/127.0.0.1/tcp/1")
}
func (c *c33Conn) RemoteMultiaddr() multiaddr.Multiaddr {
	return multiaddr.StringCast("/ip4/127.0.0.1/tcp/2")
}
func (c *c33Conn) Stat() network.ConnStats  { return network.ConnStats{} }
func (c *c33Conn) Scope() network.ConnScope { return nil }
func (c *c33Conn) ID() string               { return "c33-conn" }
func (c *c33Conn) NewStream(context.Context) (network.Stream, error) {
	return nil, errors.New("not supported")
}
func (c *c33Conn) GetStreams() []network.Stream { return nil }
func (c *c33Conn) IsClosed() bool               { return false }

// c33Stream: reads deliver the peer's bytes (then EOF), writes are collected.
type c33Stream struct {
	in    *bytes.Reader
	out   bytes.Buffer
	conn  *c33Conn
	proto core.ID
	reset bool
}

func (s *c33Stream) Read(p []byte) (int, error)       { return s.in.Read(p) }
func (s *c33Stream) Write(p []byte) (int, error)      { return s.out.Write(p) }
func (s *c33Stream) Close() error                     { return nil }
func (s *c33Stream) CloseWrite() error                { return nil }
func (s *c33Stream) CloseRead() error                 { return nil }
func (s *c33Stream) Reset() error                     { s.reset = true; return nil }
func (s *c33Stream) SetDeadline(time.Time) error      { return nil }
func (s *c33Stream) SetReadDeadline(time.Time) error  { return nil }
func (s *c33Stream) SetWriteDeadline(time.Time) error { return nil }
func (s *c33Stream) ID() string                       { return "c33-stream" }
func (s *c33Stream) Protocol() core.ID                { return s.proto }
func (s *c33Stream) SetProtocol(id core.ID) error     { s.proto = id; return nil }
func (s *c33Stream) Stat() network.Stats              { return network.Stats{} }
func (s *c33Stream) Conn() network.Conn               { return s.conn }
func (s *c33Stream) Scope() network.StreamScope       { return nil }

// c33Host is a real libp2p host whose stream-handler registration is captured and whose outgoing streams are the
// in-memory ones scripted by the case.
type c33Host struct {
	host.Host
	mu       sync.Mutex
	handlers map[core.ID]network.StreamHandler
	reply    []byte // what the remote peer writes on the next outgoing stream
	dialErr  bool
	last     *c33Stream
}

func (h *c33Host) SetStreamHandler(pid core.ID, handler network.StreamHandler) {
	h.mu.Lock()
	h.handlers[pid] = handler
	h.mu.Unlock()
}

func (h *c33Host) NewStream(ctx context.Context, p peer.ID, pids ...core.ID) (network.Stream, error) {
	h.mu.Lock()
	defer h.mu.Unlock()
	if h.dialErr {
		return nil, errors.New("dial failed")
	}
	h.last = &c33Stream{in: bytes.NewReader(h.reply), conn: &c33Conn{remote: p}, proto: pids[0]}
	return h.last, nil
}

// ---------------------------------------------------------------- fixture

type c33PeerMgr struct{}

func (c33PeerMgr) Refresh(*types.Peer)       {}
func (c33PeerMgr) Fetch(peer.ID) *types.Peer { return nil }
func (c33PeerMgr) FetchAll() []*types.Peer   { return nil }
func (c33PeerMgr) PeerHeight(peer.ID) int64  { return 1 << 60 }
func (c33PeerMgr) PeerMaxHeight() int64      { return 1 << 60 }

type c33Fix struct {
	p      *Protocol
	h      *c33Host
	remote peer.ID
	mu     sync.Mutex
	tip    int64
	synced []*types.BlockPid
	cli    queue.Client
}

const c33Sentinel = int64(987654322)

var (
	c33Once sync.Once
	c33F    *c33Fix
)

func c33Key(seed byte) crypto.PrivKey {
	s := sha256.Sum256([]byte{'d', 'l', seed})
	k, err := crypto.UnmarshalEd25519PrivateKey(ed25519.NewKeyFromSeed(s[:]))
	if err != nil {
		panic(err)
	}
	return k
}

func c33ChainBlock(h int64) *types.Block {
	return &types.Block{Height: h, BlockTime: 1600000000 + h, ParentHash: make([]byte, 32),
		Txs: []*types.Transaction{{Execer: []byte("none"), Payload: []byte(fmt.Sprint("dl-", h)), Nonce: h}}}
}

func c33Get() *c33Fix {
	c33Once.Do(func() {
		log15.Root().SetHandler(log15.DiscardHandler())
		cfg := types.NewChain33Config(types.GetDefaultCfgstring())
		log15.Root().SetHandler(log15.DiscardHandler())
		q := queue.New("verif-c33-dl")
		q.SetConfig(cfg)
		go q.Start()
		real, err := libp2p.New(libp2p.NoListenAddrs, libp2p.Identity(c33Key(0)))
		if err != nil {
			lib.Inconclusive("libp2p host: %v", err)
		}
		f := &c33Fix{h: &c33Host{Host: real, handlers: map[core.ID]network.StreamHandler{}}, tip: 20, cli: q.Client()}
		f.remote, _ = peer.IDFromPrivateKey(c33Key(1))
		env := &protocol.P2PEnv{Ctx: context.Background(), ChainCfg: cfg, QueueClient: q.Client(), Host: f.h,
			SubConfig: &p2pty.P2PSubConfig{}, PeerInfoManager: c33PeerMgr{}}
		// the three registrations of InitProtocol that concern peers (the event handler is driven directly)
		f.p = &Protocol{P2PEnv: env, counter: NewCounter()}
		protocol.RegisterStreamHandler(f.p.Host, downloadBlockOld, f.p.handleStreamDownloadBlockOld)
		protocol.RegisterStreamHandler(f.p.Host, downloadBlock, f.p.handleStreamDownloadBlock)
		bc := q.Client()
		bc.Sub("blockchain")
		go func() {
			for msg := range bc.Recv() {
				switch msg.Ty {
				case c33Sentinel:
					msg.Reply(bc.NewMessage("", c33Sentinel, nil))
				case types.EventGetBlocks:
					msg.Reply(bc.NewMessage("", types.EventBlocks, f.getBlocks(msg.GetData().(*types.ReqBlocks))))
				case types.EventSyncBlock:
					f.mu.Lock()
					f.synced = append(f.synced, msg.GetData().(*types.BlockPid))
					f.mu.Unlock()
				}
			}
		}()
		c33F = f
	})
	return c33F
}

// getBlocks: the contract of BlockChain.ProcGetBlockDetailsMsg as seen by a caller.
func (f *c33Fix) getBlocks(req *types.ReqBlocks) interface{} {
	f.mu.Lock()
	defer f.mu.Unlock()
	switch {
	case req.Start > f.tip:
		return types.ErrStartHeight
	case req.Start > req.End:
		return types.ErrEndLessThanStartHeight
	case req.End-req.Start >= types.MaxBlockCountPerTime:
		return types.ErrMaxCountPerTime
	case req.Start < 0:
		return types.ErrHeightNotExist
	}
	d := &types.BlockDetails{}
	for h := req.Start; h <= req.End && h <= f.tip; h++ {
		d.Items = append(d.Items, &types.BlockDetail{Block: c33ChainBlock(h)})
	}
	return d
}

// syncedBlocks returns (and forgets) the blocks handed to the blockchain module so far. EventSyncBlock travels on the
// low-priority channel, and so does the flush message; the channel and the responder are FIFO.
func (f *c33Fix) syncedBlocks() []*types.BlockPid {
	msg := f.cli.NewMessage("blockchain", c33Sentinel, nil)
	if err := f.cli.Send(msg, false); err != nil {
		lib.Inconclusive("flush: %v", err)
	}
	if _, err := f.cli.WaitTimeout(msg, 60*time.Second); err != nil {
		lib.Inconclusive("flush: %v", err)
	}
	f.mu.Lock()
	defer f.mu.Unlock()
	out := f.synced
	f.synced = nil
	return out
}

// frame is how protocol.WriteStream puts a message on a stream: fixed header, 4-byte big-endian length, body.
func c33Frame(body []byte) []byte {
	var l [4]byte
	binary.BigEndian.PutUint32(l[:], uint32(len(body)))
	return append(append(append([]byte{}, c33StreamHeader()...), l[:]...), body...)
}

func c33StreamHeader() []byte {
	s := &c33Stream{in: bytes.NewReader(nil), conn: &c33Conn{}}
	_ = protocol.WriteStream(&types.ReqNil{}, s)
	return s.out.Bytes()[:17]
}

func c33Unframe(b []byte, m types.Message) error {
	s := &c33Stream{in: bytes.NewReader(b), conn: &c33Conn{}}
	return protocol.ReadStream(m, s)
}

// c33KnownTrace: protocol.panicTrace (called from inside the recover of HandlerWithClose / EventHandlerWithRecover)
// slices the stack text at bytes.Index(stack, "/src/runtime/panic.go") without checking for -1. In a binary built with
// -trimpath (as the driver builds this one) the frame reads "runtime/panic.go", so the recover itself panics and the
// original panic becomes fatal. Exact signature: that slice panic escaping a wrapped handler.
const c33KnownTrace = "C33-panictrace-breaks-recover-trimpath"

// guard: a panic reaching the harness escaped a path that has no recover above it in production.
func c33Guard(t lib.TB, test string, c interface{}, path string, fn func()) {
	defer func() {
		if e := recover(); e != nil {
			if strings.HasPrefix(path, "registered stream handler") && lib.Known(c33KnownTrace) && strings.Contains(fmt.Sprint(e), "slice bounds out of range [-1:]") {
				lib.ExcludedKnown(c33KnownTrace)
				return
			}
			lib.Violation(t, "C33", test, c, "panic escaped %s, which production runs without a recover above it (the node would die): %v", path, e)
		}
	}()
	fn()
}

// ---------------------------------------------------------------- cases

type c33DlCase struct {
	Side   string `json:"side"` // serve | serveOld | fetch
	Kind   string `json:"kind"` // shape of the peer's bytes
	Start  int64  `json:"start"`
	End    int64  `json:"end"`
	Height int64  `json:"height"` // fetch: the height the node asks for
	Cut    int    `json:"cut"`    // bytes removed from the end (truncation)
	Seed   int    `json:"seed"`
}

var c33Heights = []int64{-1, 0, 1, 5, 20, 21, 300, 1 << 40, -1 << 62}

func c33GenDl(t *rapid.T) c33DlCase {
	c := c33DlCase{Side: rapid.SampledFrom([]string{"serve", "serveOld", "fetch", "fetch"}).Draw(t, "side"),
		Start: rapid.SampledFrom(c33Heights).Draw(t, "start"), Seed: rapid.IntRange(0, 255).Draw(t, "seed")}
	c.End = c.Start + rapid.SampledFrom([]int64{0, 0, 1, 255, 256, 257, -1, 1 << 40}).Draw(t, "span")
	c.Height = rapid.SampledFrom([]int64{0, 5, 20, 21, 1 << 40}).Draw(t, "height")
	if c.Side == "fetch" {
		c.Kind = rapid.SampledFrom([]string{"ok", "ok", "nilMessage", "noItems", "wrongOneof", "noValue", "emptyBlock", "manyItems", "otherHeight",
			"garbage", "badHeader", "hugeLength", "empty", "dialError", "txInsteadOfResp"}).Draw(t, "kind")
	} else {
		c.Kind = rapid.SampledFrom([]string{"ok", "ok", "ok", "nilMessage", "garbage", "badHeader", "hugeLength", "empty"}).Draw(t, "kind")
	}
	if rapid.IntRange(0, 4).Draw(t, "truncate") == 0 {
		c.Cut = rapid.IntRange(1, 40).Draw(t, "cut")
	}
	return c
}

// peerBytes renders what the remote peer puts on the stream and, for replies, the block a correct reader extracts
// from it (nil when the reply carries none: malformed, to be dropped).
func c33PeerBytes(c c33DlCase) (raw []byte, carried *types.Block) {
	var m types.Message
	switch {
	case c.Side == "serve":
		m = &types.ReqBlocks{Start: c.Start, End: c.End}
	case c.Side == "serveOld" && c.Kind == "nilMessage":
		m = &types.MessageGetBlocksReq{}
	case c.Side == "serveOld":
		m = &types.MessageGetBlocksReq{Message: &types.P2PGetBlocks{StartHeight: c.Start, EndHeight: c.End}}
	}
	blk := c33ChainBlock(c.Height)
	switch c.Kind {
	case "ok":
		if c.Side == "fetch" {
			m, carried = &types.MessageGetBlocksResp{Message: &types.InvDatas{Items: []*types.InvData{{Ty: 2, Value: &types.InvData_Block{Block: blk}}}}}, blk
		}
	case "nilMessage":
		if c.Side == "fetch" {
			m = &types.MessageGetBlocksResp{}
		}
	case "noItems":
		m = &types.MessageGetBlocksResp{Message: &types.InvDatas{}}
	case "wrongOneof":
		m = &types.MessageGetBlocksResp{Message: &types.InvDatas{Items: []*types.InvData{{Ty: 1, Value: &types.InvData_Tx{Tx: blk.Txs[0]}}}}}
	case "noValue":
		m = &types.MessageGetBlocksResp{Message: &types.InvDatas{Items: []*types.InvData{{Ty: 2}}}}
	case "emptyBlock":
		m, carried = &types.MessageGetBlocksResp{Message: &types.InvDatas{Items: []*types.InvData{{Ty: 2, Value: &types.InvData_Block{Block: &types.Block{}}}}}}, &types.Block{}
	case "manyItems":
		items := []*types.InvData{{Ty: 2, Value: &types.InvData_Block{Block: blk}}, {Ty: 1, Value: &types.InvData_Tx{Tx: blk.Txs[0]}}, {Ty: 2}}
		m, carried = &types.MessageGetBlocksResp{Message: &types.InvDatas{Items: items}}, blk
	case "otherHeight":
		other := c33ChainBlock(c.Height + 7)
		m, carried = &types.MessageGetBlocksResp{Message: &types.InvDatas{Items: []*types.InvData{{Ty: 2, Value: &types.InvData_Block{Block: other}}}}}, other
	case "txInsteadOfResp":
		m = blk.Txs[0]
	case "garbage":
		raw = c33Frame(bytes.Repeat([]byte{0x0a, 0xff, byte(c.Seed), 0x7f}, 1+c.Seed%9))
	case "badHeader":
		raw = append(bytes.Repeat([]byte{byte(c.Seed)}, 17), 0, 0, 0, 0)
	case "hugeLength":
		raw = append(append([]byte{}, c33StreamHeader()...), 0x7f, 0xff, 0xff, byte(c.Seed))
	case "empty", "dialError":
		raw = []byte{}
	}
	if raw == nil {
		raw = c33Frame(types.Encode(m))
	}
	if c.Cut > 0 && len(raw) > 0 {
		if c.Cut >= len(raw) {
			raw = raw[:0]
		} else {
			raw = raw[:len(raw)-c.Cut]
		}
		carried = c33Carried(raw)
	}
	return raw, carried
}

// c33Carried: the block a correct reader finds in reply bytes (independent re-reading with the documented framing).
func c33Carried(raw []byte) *types.Block {
	var resp types.MessageGetBlocksResp
	if c33Unframe(raw, &resp) != nil || len(resp.GetMessage().GetItems()) == 0 {
		return nil
	}
	return resp.GetMessage().GetItems()[0].GetBlock()
}

func c33RunDl(t lib.TB, test string, c c33DlCase) (nontrivial bool) {
	f := c33Get()
	raw, carried := c33PeerBytes(c)
	lib.Class(c.Side + "_" + c.Kind)
	if c.Side == "fetch" {
		f.syncedBlocks()
		f.h.mu.Lock()
		f.h.reply, f.h.dialErr = raw, c.Kind == "dialError"
		f.h.mu.Unlock()
		var err error
		c33Guard(t, test, c, "downloadBlock -> downloadBlockFromPeerOld (download goroutine)", func() {
			err = f.p.downloadBlock(c.Height, f.p.initJob([]string{f.remote.String()}, "c33-task"))
		})
		got := f.syncedBlocks()
		switch {
		case carried != nil && carried.GetHeight() != c.Height:
			// a block of another height than the requested one: whether that counts as malformed is not C33's call
			lib.Class("fetch_other_height_not_judged")
		case carried != nil:
			if err != nil || len(got) != 1 || !bytes.Equal(types.Encode(got[0].Block), types.Encode(carried)) || got[0].Pid != f.remote.Pretty() {
				lib.Violation(t, "C33", test, c, "a well-formed download reply was not handed to the blockchain module (err=%v, %d blocks handed over)", err, len(got))
			}
			lib.Class("fetch_block_delivered")
		default:
			if err == nil || len(got) != 0 {
				lib.Violation(t, "C33", test, c, "a download reply that carries no block was not rejected (err=%v, %d blocks handed to the blockchain module)", err, len(got))
			}
			lib.Class("fetch_rejected")
		}
		return c.Kind != "dialError" && c.Kind != "empty" && c.Kind != "badHeader"
	}
	id := core.ID(downloadBlock)
	if c.Side == "serveOld" {
		id = downloadBlockOld
	}
	serve := func(in []byte) *c33Stream {
		s := &c33Stream{in: bytes.NewReader(in), conn: &c33Conn{remote: f.remote}, proto: id}
		f.h.mu.Lock()
		h := f.h.handlers[id]
		f.h.mu.Unlock()
		c33Guard(t, test, c, "registered stream handler of "+string(id)+" (libp2p runs it in a bare goroutine)", func() { h(s) })
		return s
	}
	s := serve(raw)
	if s.reset {
		lib.Class("serve_recovered_panic")
	}
	// afterwards a well-formed request for a height the chain has is still answered with that block
	var probe types.Message = &types.ReqBlocks{Start: 7, End: 7}
	if c.Side == "serveOld" {
		probe = &types.MessageGetBlocksReq{Message: &types.P2PGetBlocks{StartHeight: 7, EndHeight: 7}}
	}
	ps := serve(c33Frame(types.Encode(probe)))
	var got *types.Block
	if c.Side == "serveOld" {
		got = c33Carried(ps.out.Bytes())
	} else {
		var b types.Block
		if c33Unframe(ps.out.Bytes(), &b) == nil {
			got = &b
		}
	}
	if got == nil || !bytes.Equal(types.Encode(got), types.Encode(c33ChainBlock(7))) {
		lib.Violation(t, "C33", test, c, "after the peer's request a well-formed request for height 7 on %s was not answered with block 7", id)
	}
	return c.Kind == "ok" || c.Kind == "nilMessage" || c.Kind == "garbage"
}

// Non-trivial: the peer's bytes pass the stream framing (header and length prefix are read), i.e. they reach the
// protobuf decoder and, when decodable, the request / reply handling behind it.
func TestPropPeerInputDownload(t *testing.T) {
	defer lib.Flush()
	rapid.Check(t, func(t *rapid.T) {
		c := c33GenDl(t)
		lib.Eval()
		if c33RunDl(t, "TestPropPeerInputDownload", c) && c.Cut == 0 {
			lib.NonTrivialCase(c)
		}
	})
}

// A download request without the inner message makes handleStreamDownloadBlockOld dereference nil; HandlerWithClose is
// meant to recover that.
func TestKnown_C33PanicTrace(t *testing.T) {
	defer lib.Flush()
	f := c33Get()
	c := c33DlCase{Side: "serveOld", Kind: "nilMessage"}
	raw, _ := c33PeerBytes(c)
	s := &c33Stream{in: bytes.NewReader(raw), conn: &c33Conn{remote: f.remote}, proto: downloadBlockOld}
	var pv interface{}
	func() {
		defer func() { pv = recover() }()
		f.h.handlers[downloadBlockOld](s)
	}()
	if pv != nil {
		lib.KnownOrViolation(t, "C33", "TestKnown_C33PanicTrace", c33KnownTrace, c,
			fmt.Sprintf("the recover of protocol.HandlerWithClose panics itself in panicTrace when the binary is built with -trimpath, so a peer's request that makes a stream handler panic kills the node: %v", pv))
	}
}

// FuzzDownloadResp: arbitrary bytes as the remote peer's reply on a block download stream.
func FuzzDownloadResp(f *testing.F) {
	f.Fuzz(func(t *testing.T, height int64, raw []byte) { c33FuzzDownloadResp(t, "FuzzDownloadResp", height, raw) })
}

func c33FuzzDownloadResp(t lib.TB, test string, height int64, raw []byte) {
	lib.Eval()
	fx := c33Get()
	c := map[string]interface{}{"height": height, "reply": fmt.Sprintf("%x", raw)}
	fx.syncedBlocks()
	fx.h.mu.Lock()
	fx.h.reply, fx.h.dialErr = raw, false
	fx.h.mu.Unlock()
	var err error
	c33Guard(t, test, c, "downloadBlock -> downloadBlockFromPeerOld (download goroutine)", func() {
		err = fx.p.downloadBlock(height, fx.p.initJob([]string{fx.remote.String()}, "c33-task"))
	})
	carried, got := c33Carried(raw), fx.syncedBlocks()
	if carried != nil && carried.GetHeight() != height {
		lib.Class("fuzz_other_height_not_judged")
	} else if carried != nil {
		lib.Class("fuzz_block_delivered")
		lib.NonTrivial(lib.Fingerprint(raw))
		if err != nil || len(got) != 1 || !bytes.Equal(types.Encode(got[0].Block), types.Encode(carried)) {
			lib.Violation(t, "C33", test, c, "a well-formed download reply was not handed to the blockchain module (err=%v, %d blocks)", err, len(got))
		}
	} else if err == nil || len(got) != 0 {
		lib.Violation(t, "C33", test, c, "a download reply that carries no block was not rejected (err=%v, %d blocks handed over)", err, len(got))
	}
}

func c33CorpusDir() string {
	dir := os.Getenv("VERIF_DIR")
	if dir == "" {
		dir = "/verif"
	}
	return filepath.Join(dir, "corpus", "C33", "FuzzDownloadResp")
}

// TestCorpusReplayC33Download runs the saved seeds of FuzzDownloadResp (go fuzz v1 files: int64 height, []byte reply)
// through the fuzz body in the quick tier.
func TestCorpusReplayC33Download(t *testing.T) {
	defer lib.Flush()
	files, _ := filepath.Glob(filepath.Join(c33CorpusDir(), "*"))
	if len(files) == 0 {
		lib.Inconclusive("seed corpus %s is empty", c33CorpusDir())
	}
	for _, p := range files {
		b, err := os.ReadFile(p)
		lines := strings.Split(strings.TrimSpace(string(b)), "\n")
		if err != nil || len(lines) != 3 || lines[0] != "go test fuzz v1" {
			lib.Inconclusive("corpus file %s is not a 2-argument go fuzz v1 file", p)
		}
		h, err1 := strconv.ParseInt(strings.TrimSuffix(strings.TrimPrefix(lines[1], "int64("), ")"), 0, 64)
		raw, err2 := strconv.Unquote(strings.TrimSuffix(strings.TrimPrefix(lines[2], "[]byte("), ")"))
		if err1 != nil || err2 != nil {
			lib.Inconclusive("corpus file %s: %v %v", p, err1, err2)
		}
		lib.Class("corpus_FuzzDownloadResp")
		c33FuzzDownloadResp(t, "TestCorpusReplayC33Download", h, []byte(raw))
	}
}

// TestC33WriteCorpusDownload regenerates the seeds from the structured reply shapes (VERIF_C33_WRITE_CORPUS=<dir>).
func TestC33WriteCorpusDownload(t *testing.T) {
	dir := os.Getenv("VERIF_C33_WRITE_CORPUS")
	if dir == "" {
		t.Skip("set VERIF_C33_WRITE_CORPUS to regenerate the seed corpus")
	}
	d := filepath.Join(dir, "FuzzDownloadResp")
	_ = os.MkdirAll(d, 0o755)
	for _, kind := range []string{"ok", "nilMessage", "noItems", "wrongOneof", "noValue", "emptyBlock", "manyItems", "otherHeight", "garbage", "badHeader", "hugeLength", "empty", "txInsteadOfResp"} {
		for _, cut := range []int{0, 3} {
			raw, _ := c33PeerBytes(c33DlCase{Side: "fetch", Kind: kind, Height: 5, Cut: cut, Seed: 9})
			body := fmt.Sprintf("go test fuzz v1\nint64(5)\n[]byte(%s)\n", strconv.Quote(string(raw)))
			if err := os.WriteFile(filepath.Join(d, fmt.Sprintf("%s-cut%d", kind, cut)), []byte(body), 0o644); err != nil {
				t.Fatal(err)
			}
		}
	}
}
