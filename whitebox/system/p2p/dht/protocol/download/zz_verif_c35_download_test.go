package download

// C35: a block-download task for a height range delivers every height of the range to the blockchain when at
// least one of the given peers serves it, even if other peers fail, stall or return malformed data; a peer that
// failed a height is not asked for it again within the same task; every task terminates.
//
// White-box: the real handleEventDownloadBlock (initJob / downloadBlock / availbTask / Remove / checkTask) runs on
// a real libp2p host on loopback against 2-5 real libp2p hosts whose stream handler for the download protocol is
// scripted per (peer, height). The harness only injects what production injects through interfaces: the peers'
// reported latency (peerstore) and claimed height (PeerInfoManager), and a fake blockchain on the queue.
//
// Oracle (derived from the statement, nothing from the code under test):
//  1. delivery: every height for which some given peer both claims to have it and is scripted to serve it must
//     arrive at the "blockchain" topic as EventSyncBlock carrying a block of exactly that height; a block
//     delivered for a request must have the requested height.
//  2. no re-asking: the handlers keep a request log. The task makes a first pass (all heights in parallel) and then
//     one second-chance pass over the heights that failed (checkTask, sequential, by design with the full peer
//     list again). Within one pass a (peer, height) may be requested at most once, and a height gets at most one
//     second-chance pass. The pass of a request is read from the task's own counter (initJob appends one latency
//     sample per pass), at the moment the request arrives - the client is blocked on that request, so it is exact.
//  3. termination: the handler returns. Two wall-clock-free bounds turn a task that does not terminate into a
//     violation: (a) more requests than 50 tries per height and pass can produce; (b) more PeerHeight polls by one
//     height of one pass than the code can make: downloadBlock calls availbTask at most 50 times per height and
//     pass (retryCount), and availbTask asks PeerInfoManager.PeerHeight once per list entry, of which there are at
//     most as many as given peers, i.e. <= 50 x peers polls; the bound is three times that. Polls are attributed
//     to a height without help from the code: in the first pass every height has its own goroutine (goroutine
//     id), in the second-chance pass every failed height has its own pass number. Any other silent hang only
//     trips the watchdog => inconclusive.
// Schedules are sampled, not controlled: every violation message carries the observed request/delivery history.

import (
	"context"
	"crypto/sha256"
	"encoding/hex"
	"encoding/json"
	"fmt"
	"math/rand"
	"os"
	"runtime"
	"sort"
	"strconv"
	"strings"
	"sync"
	"sync/atomic"
	"testing"
	"time"

	"github.com/33cn/chain33/common/log/log15"
	"github.com/33cn/chain33/queue"
	"github.com/33cn/chain33/system/p2p/dht/protocol"
	"github.com/33cn/chain33/types"
	"github.com/libp2p/go-libp2p"
	"github.com/libp2p/go-libp2p/core/host"
	"github.com/libp2p/go-libp2p/core/network"
	"github.com/libp2p/go-libp2p/core/peer"
	"github.com/libp2p/go-libp2p/core/peerstore"
	coreprotocol "github.com/libp2p/go-libp2p/core/protocol"
	"github.com/libp2p/go-msgio"
	"pgregory.net/rapid"
	"verifharness/lib"
)

const (
	c35FindWrongHeight = "C35-wrong-height-block-accepted"
	c35FindStaleIndex  = "C35-stale-index-removes-wrong-peer"
	c35MaxPeers        = 5
	c35Window          = 1000 // every case uses its own height window, so stray traffic of an abandoned case is recognisable
	c35SentinelTy      = -3535
)

// Behaviour codes of a peer for one height (one letter per height in c35Peer.Beh):
//
//	S serve            L serve after DelayMs       R reset the stream       T stall DelayMs, then reset
//	E reply, no items  N reply, nil message        O reply, wrong oneof     G undecodable reply bytes
//	V reply with one item that has no value at all (on the wire the same as a nil item)
//	B reply whose block field is left nil (on the wire an all-default block, i.e. "height 0": for a request of
//	  height 0 no downloader can tell it from a block, so the generator does not use B at absolute height 0)
//	W reply with a block of another height (outside the requested range)

func c35Serves(b byte) bool { return b == 'S' || b == 'L' }

type c35Peer struct {
	LatencyMs int    `json:"latencyMs"` // latency the peerstore reports: the task tries peers in this order
	Claim     int    `json:"claim"`     // the peer claims to have the first Claim heights of the range (N = all; -1 = no peer info: PeerHeight -1)
	DelayMs   int    `json:"delayMs"`   // duration of this peer's L and T behaviours
	Beh       string `json:"beh"`       // behaviour per height, codes above
}

// c35Gate (pinned tests only): the reply to (Peer, H) is withheld until the request (AfterPeer, AfterH) has arrived.
type c35Gate struct{ Peer, H, AfterPeer, AfterH int }

type c35Case struct {
	Zero  bool      `json:"startsAtHeight0,omitempty"` // the range is [0, N-1] (genesis height included) instead of a window of its own
	N     int       `json:"heights"`
	Peers []c35Peer `json:"peers"`
	Gates []c35Gate `json:"gates,omitempty"`
}

type c35Req struct {
	Seq  int    `json:"seq"`
	Peer int    `json:"peer"`
	H    int    `json:"h"`    // height relative to the start of the range
	Pass int    `json:"pass"` // 1 = first pass, 1+k = second-chance pass of the k-th failed height
	Beh  string `json:"beh"`
	sum  string // sha256 of the encoded block this reply carried ("" = the reply carried no block)
}

// c35Delivery is one EventSyncBlock as the blockchain saw it, judged by content: the delivered block is matched
// byte for byte (hash of its encoding) against the blocks the scripted peers put on the wire.
type c35Delivery struct {
	Nil    bool  `json:"nilBlock,omitempty"` // BlockPid.Block == nil
	Height int64 `json:"height"`             // of the delivered block, relative to the start of the range
	Seq    int   `json:"answersSeq"`         // the request whose reply carried exactly this block; -1 = nobody sent it
	PidOK  bool  `json:"sourcePidIsSender"`  // BlockPid.Pid names the peer that sent it
}

// ---- fixture: one client host, five scripted server hosts, one queue with a fake blockchain (per process) ----

type c35Fixture struct {
	client  host.Host
	servers []host.Host
	q       queue.Queue
	pcli    queue.Client // the protocol's queue client
	mu      sync.Mutex
	blocks  []*types.BlockPid // EventSyncBlock payloads in arrival order
	sentCh  chan int64
}

var (
	c35Once sync.Once
	c35Fix  *c35Fixture
	c35Cur  atomic.Pointer[c35Run]
	c35Seq  int64
)

func c35Setup() *c35Fixture {
	c35Once.Do(func() {
		log15.Root().SetHandler(log15.DiscardHandler())
		f := &c35Fixture{sentCh: make(chan int64, 16)}
		mk := func() host.Host {
			h, err := libp2p.New(libp2p.ListenAddrStrings("/ip4/127.0.0.1/tcp/0"), libp2p.ResourceManager(&network.NullResourceManager{}))
			if err != nil {
				lib.Inconclusive("C35 fixture: cannot create libp2p host: %v", err)
			}
			return h
		}
		f.client = mk()
		for i := 0; i < c35MaxPeers; i++ {
			s := mk()
			idx := i
			s.SetStreamHandler(downloadBlockOld, func(st network.Stream) { c35Handle(idx, st) })
			ctx, cancel := context.WithTimeout(context.Background(), 60*time.Second)
			err := f.client.Connect(ctx, peer.AddrInfo{ID: s.ID(), Addrs: s.Addrs()})
			cancel()
			if err != nil {
				lib.Inconclusive("C35 fixture: cannot connect to scripted peer: %v", err)
			}
			f.servers = append(f.servers, s)
		}
		f.q = queue.New("c35")
		f.pcli = f.q.Client()
		bc := f.q.Client()
		bc.Sub("blockchain")
		go func() {
			for msg := range bc.Recv() {
				switch msg.Ty {
				case types.EventSyncBlock:
					f.mu.Lock()
					f.blocks = append(f.blocks, msg.Data.(*types.BlockPid))
					f.mu.Unlock()
				case c35SentinelTy:
					f.sentCh <- msg.Data.(int64)
				}
			}
		}()
		c35Fix = f
	})
	return c35Fix
}

// injected views: reported latency and claimed heights
type c35Host struct {
	host.Host
	ps     peerstore.Peerstore
	dialEr *int32
}

func (h c35Host) Peerstore() peerstore.Peerstore { return h.ps }
func (h c35Host) NewStream(ctx context.Context, p peer.ID, pids ...coreprotocol.ID) (network.Stream, error) {
	s, err := h.Host.NewStream(ctx, p, pids...)
	if err != nil {
		atomic.AddInt32(h.dialEr, 1) // never scripted: loopback/scheduling trouble, the case is discarded
	}
	return s, err
}

type c35PS struct {
	peerstore.Peerstore
	lat map[peer.ID]time.Duration
}

func (p c35PS) LatencyEWMA(id peer.ID) time.Duration { return p.lat[id] }

type c35PIM struct {
	height map[peer.ID]int64
	idx    map[peer.ID]int
	run    *c35Run
}

func (m *c35PIM) Refresh(*types.Peer)       {}
func (m *c35PIM) Fetch(peer.ID) *types.Peer { return nil }
func (m *c35PIM) FetchAll() []*types.Peer   { return nil }
func (m *c35PIM) PeerHeight(pid peer.ID) int64 {
	m.run.polled(m.idx[pid])
	return m.height[pid]
}
func (m *c35PIM) PeerMaxHeight() (max int64) {
	for _, h := range m.height {
		if h > max {
			max = h
		}
	}
	return
}

// ---- one running case ----

type c35Run struct {
	id    int64
	c     c35Case
	base  int64
	p     *Protocol
	mu    sync.Mutex
	log   []c35Req
	bound int
	over  chan struct{} // closed when the request count exceeds bound
	done  chan struct{} // closed when the case is over: releases stalled handlers

	pollBound int
	polls     map[c35PollKey]*c35Poll
	stuck     chan struct{} // closed when one height of one pass polled PeerHeight more than pollBound times
}

// c35PollKey identifies one height of one pass without knowing the height: first pass = one goroutine per height,
// second-chance pass = one pass number per failed height (all in the handler's goroutine).
type c35PollKey struct {
	Gid  uint64
	Pass int
}

type c35Poll struct {
	Gid    uint64      `json:"goroutine"`
	Pass   int         `json:"pass"`
	Count  int         `json:"peerHeightPolls"`
	ByPeer map[int]int `json:"byPeer"`
}

func c35Gid() (id uint64) {
	var b [40]byte
	n := runtime.Stack(b[:], false)
	for _, ch := range b[len("goroutine "):n] {
		if ch < '0' || ch > '9' {
			break
		}
		id = id*10 + uint64(ch-'0')
	}
	return
}

func (r *c35Run) polled(peerIdx int) {
	k := c35PollKey{c35Gid(), r.pass()}
	r.mu.Lock()
	pl := r.polls[k]
	if pl == nil {
		pl = &c35Poll{Gid: k.Gid, Pass: k.Pass, ByPeer: map[int]int{}}
		r.polls[k] = pl
	}
	pl.Count++
	pl.ByPeer[peerIdx]++
	if pl.Count == r.pollBound+1 {
		select {
		case <-r.stuck:
		default:
			close(r.stuck)
		}
	}
	r.mu.Unlock()
}

func (r *c35Run) pass() int {
	c := r.p.counter
	c.rw.Lock()
	defer c.rw.Unlock()
	e := 0
	for _, pc := range c.peerCounter {
		if len(pc.latencies) > e {
			e = len(pc.latencies)
		}
	}
	return e
}

func (r *c35Run) seen(peerIdx, h int) bool {
	r.mu.Lock()
	defer r.mu.Unlock()
	for _, q := range r.log {
		if q.Peer == peerIdx && q.H == h {
			return true
		}
	}
	return false
}

func (r *c35Run) sleep(d time.Duration) {
	select {
	case <-time.After(d):
	case <-r.done:
	}
}

var c35Header = append(append([]byte{byte(len("/protobuf/msgio") + 1)}, "/protobuf/msgio"...), '\n')

func c35Sum(b *types.Block) string {
	h := sha256.Sum256(types.Encode(b))
	return hex.EncodeToString(h[:])
}

func c35Handle(peerIdx int, s network.Stream) {
	var req types.MessageGetBlocksReq
	if err := protocol.ReadStream(&req, s); err != nil || req.Message == nil {
		_ = s.Reset()
		return
	}
	r := c35Cur.Load()
	if r == nil || peerIdx >= len(r.c.Peers) || req.Message.StartHeight < r.base || req.Message.StartHeight >= r.base+int64(r.c.N) {
		_ = s.Reset() // stray request of an abandoned case
		return
	}
	h := int(req.Message.StartHeight - r.base)
	pr := r.c.Peers[peerIdx]
	beh := pr.Beh[h]
	pass := r.pass()
	r.mu.Lock()
	seq := len(r.log)
	// the block this peer would serve: unique content per case, peer and request
	block := &types.Block{Height: r.base + int64(h), Version: int64(peerIdx) + 1, BlockTime: int64(seq) + 1,
		TxHash: []byte(fmt.Sprintf("c35 case %d peer %d request %d", r.id, peerIdx, seq))}
	sum := ""
	switch beh {
	case 'W':
		block.Height += int64(r.c.N) + 3 // outside the requested range
		fallthrough
	case 'S', 'L':
		sum = c35Sum(block)
	case 'B':
		sum = c35Sum(&types.Block{})
	}
	r.log = append(r.log, c35Req{Seq: seq, Peer: peerIdx, H: h, Pass: pass, Beh: string(beh), sum: sum})
	if len(r.log) == r.bound+1 {
		close(r.over)
	}
	r.mu.Unlock()
	for _, g := range r.c.Gates {
		if g.Peer == peerIdx && g.H == h {
			for !r.seen(g.AfterPeer, g.AfterH) {
				select {
				case <-r.done:
					_ = s.Reset()
					return
				case <-time.After(2 * time.Millisecond):
				}
			}
		}
	}
	reply := func(m *types.MessageGetBlocksResp) {
		if protocol.WriteStream(m, s) != nil {
			_ = s.Reset()
			return
		}
		_ = s.Close()
	}
	one := func(v *types.InvData) *types.MessageGetBlocksResp {
		return &types.MessageGetBlocksResp{Message: &types.InvDatas{Items: []*types.InvData{v}}}
	}
	switch beh {
	case 'L':
		r.sleep(time.Duration(pr.DelayMs) * time.Millisecond)
		fallthrough
	case 'S':
		reply(one(&types.InvData{Ty: 2, Value: &types.InvData_Block{Block: block}}))
	case 'T':
		r.sleep(time.Duration(pr.DelayMs) * time.Millisecond)
		fallthrough
	case 'R':
		_ = s.Reset()
	case 'E':
		reply(&types.MessageGetBlocksResp{Message: &types.InvDatas{}})
	case 'N':
		reply(&types.MessageGetBlocksResp{})
	case 'O':
		reply(one(&types.InvData{Ty: 1, Value: &types.InvData_Tx{Tx: &types.Transaction{Execer: []byte("none")}}}))
	case 'V':
		reply(one(&types.InvData{Ty: 2}))
	case 'B':
		reply(one(&types.InvData{Ty: 2, Value: &types.InvData_Block{}}))
	case 'G':
		_, _ = s.Write(c35Header)
		_ = msgio.NewWriter(s).WriteMsg([]byte{0xff, 0xff, 0xff, 0xff, 0x07})
		_ = s.Close()
	case 'W':
		reply(one(&types.InvData{Ty: 2, Value: &types.InvData_Block{Block: block}}))
	}
}

type c35Obs struct {
	Reqs      []c35Req      `json:"requests"`
	Delivered []c35Delivery `json:"delivered"`
	discarded bool          // a stream to a loopback peer could not be opened: environment trouble, no verdict
	livelock  bool          // the request count exceeded what 50 tries per height and pass can produce; the task was abandoned
	Polls     []c35Poll     `json:"polls,omitempty"` // PeerHeight polls per height-of-a-pass; kept only when the poll bound tripped
	pollBound int
	maxPolls  int  // highest poll count of one height of one pass
	stuck     bool // one height of one pass exceeded pollBound: the task was cancelled
}

func c35History(c c35Case, o c35Obs) map[string]interface{} {
	return map[string]interface{}{"case": c, "requests": o.Reqs, "delivered": o.Delivered, "polls": o.Polls}
}

func c35Short(o c35Obs) string {
	var sb strings.Builder
	sb.WriteString("requests(seq:peer/height/pass/behaviour):")
	for i, q := range o.Reqs {
		if i == 120 {
			fmt.Fprintf(&sb, " …(%d more)", len(o.Reqs)-i)
			break
		}
		fmt.Fprintf(&sb, " %d:p%d/h%d/%d/%s", q.Seq, q.Peer, q.H, q.Pass, q.Beh)
	}
	sb.WriteString(" delivered(height<-seq):")
	for _, d := range o.Delivered {
		switch {
		case d.Nil:
			sb.WriteString(" NIL-BLOCK")
		case d.Seq < 0:
			fmt.Fprintf(&sb, " h%d<-nobody", d.Height)
		case !d.PidOK:
			fmt.Fprintf(&sb, " h%d<-%d(wrong source pid)", d.Height, d.Seq)
		default:
			fmt.Fprintf(&sb, " h%d<-%d", d.Height, d.Seq)
		}
	}
	if len(o.Polls) > 0 {
		sb.WriteString(" polls(goroutine/pass:count{peer:count}):")
		for i, pl := range o.Polls {
			if i == 12 {
				fmt.Fprintf(&sb, " …(%d more)", len(o.Polls)-i)
				break
			}
			fmt.Fprintf(&sb, " g%d/%d:%d%v", pl.Gid, pl.Pass, pl.Count, pl.ByPeer)
		}
	}
	return sb.String()
}

// c35Exec runs one task for the case against the real handler and returns what the peers and the blockchain saw.
func c35Exec(c c35Case) c35Obs {
	f := c35Setup()
	id := atomic.AddInt64(&c35Seq, 1)
	base := id * c35Window
	if c.Zero {
		base = 0 // stray traffic of an abandoned earlier case cannot be told apart here; it only exists after a failure
	}
	r := &c35Run{id: id, c: c, base: base, bound: 100*c.N + 10, over: make(chan struct{}), done: make(chan struct{}),
		pollBound: 3 * 50 * len(c.Peers), polls: map[c35PollKey]*c35Poll{}, stuck: make(chan struct{})}
	lat, hts, pidx := map[peer.ID]time.Duration{}, map[peer.ID]int64{}, map[peer.ID]int{}
	var pids []string
	for i, pr := range c.Peers {
		pid := f.servers[i].ID()
		lat[pid] = time.Duration(pr.LatencyMs) * time.Millisecond
		hts[pid] = r.base + int64(pr.Claim) - 1
		if pr.Claim < 0 {
			hts[pid] = -1 // what PeerInfoManager answers before it has any info about the peer
		}
		pidx[pid] = i
		pids = append(pids, pid.String())
	}
	var dialEr int32
	ctx, cancel := context.WithCancel(context.Background())
	defer cancel()
	r.p = &Protocol{counter: NewCounter(), P2PEnv: &protocol.P2PEnv{Ctx: ctx, QueueClient: f.pcli,
		Host: c35Host{Host: f.client, ps: c35PS{Peerstore: f.client.Peerstore(), lat: lat}, dialEr: &dialEr}, PeerInfoManager: &c35PIM{height: hts, idx: pidx, run: r}}}
	f.mu.Lock()
	f.blocks = nil
	f.mu.Unlock()
	c35Cur.Store(r)
	ret := make(chan struct{})
	go func() {
		r.p.handleEventDownloadBlock(f.pcli.NewMessage("p2p", types.EventFetchBlocks, &types.ReqBlocks{Start: r.base, End: r.base + int64(c.N) - 1, Pid: pids}))
		close(ret)
	}()
	snapshot := func() (o c35Obs) {
		r.mu.Lock()
		o.Reqs = append(o.Reqs, r.log...)
		r.mu.Unlock()
		f.mu.Lock()
		for _, bp := range f.blocks {
			if bp.Block == nil {
				o.Delivered = append(o.Delivered, c35Delivery{Nil: true, Seq: -1})
				continue
			}
			d := c35Delivery{Height: bp.Block.Height - r.base, Seq: -1}
			sum := c35Sum(bp.Block)
			for _, q := range o.Reqs { // prefer the reply that was sent for this very height (empty blocks all look alike)
				if q.sum == sum && (d.Seq < 0 || int64(q.H) == d.Height) {
					d.Seq = q.Seq
				}
			}
			if d.Seq >= 0 {
				d.PidOK = bp.Pid == f.servers[o.Reqs[d.Seq].Peer].ID().String()
			}
			o.Delivered = append(o.Delivered, d)
		}
		f.mu.Unlock()
		o.pollBound = r.pollBound
		r.mu.Lock()
		for _, pl := range r.polls {
			if pl.Count > o.maxPolls {
				o.maxPolls = pl.Count
			}
			if pl.Count > r.pollBound/3 { // only the heavy pollers are worth showing
				cp := *pl
				cp.ByPeer = map[int]int{}
				for k, v := range pl.ByPeer {
					cp.ByPeer[k] = v
				}
				o.Polls = append(o.Polls, cp)
			}
		}
		r.mu.Unlock()
		sort.Slice(o.Polls, func(i, j int) bool { return o.Polls[i].Count > o.Polls[j].Count })
		return
	}
	finish := func() { c35Cur.Store(nil); close(r.done) }
	select {
	case <-ret:
	case <-r.over:
		o := snapshot()
		finish()
		o.livelock = true
		return o
	case <-r.stuck:
		o := snapshot()
		o.stuck = true
		cancel() // lets the polling goroutines leave (they test p.Ctx once per iteration), so the process stays usable
		select {
		case <-ret:
		case <-time.After(time.Minute):
		}
		finish()
		return o
	case <-time.After(10 * time.Minute):
		o := snapshot()
		lib.Inconclusive("C35 watchdog: download handler has not returned after 10 min; case %s; %s", c35JSON(c), c35Short(o))
	}
	// everything the task delivered is queued in FIFO order before this sentinel
	_ = f.pcli.Send(f.pcli.NewMessage("blockchain", c35SentinelTy, id), false)
	for drained := false; !drained; {
		select {
		case got := <-f.sentCh:
			drained = got == id
		case <-time.After(5 * time.Minute):
			lib.Inconclusive("C35 watchdog: fake blockchain did not drain its queue")
		}
	}
	o := snapshot()
	finish()
	o.discarded = atomic.LoadInt32(&dialEr) > 0
	return o
}

func c35JSON(v interface{}) string { b, _ := json.Marshal(v); return string(b) }

// c35Problem is one oracle failure; Finding names the listed finding whose signature it matches ("" = none).
type c35Problem struct{ Finding, Msg string }

// c35Check evaluates the oracle on one observed history.
func c35Check(c c35Case, o c35Obs) (probs []c35Problem, reasked, secondChance bool) {
	bad := func(finding, format string, args ...interface{}) {
		probs = append(probs, c35Problem{finding, fmt.Sprintf(format, args...) + "; " + c35Short(o)})
	}
	// --- 3. termination (by count) ---
	if o.livelock {
		bad("", "task does not terminate: %d requests for %d heights, more than 50 tries per height and pass can produce", len(o.Reqs), c.N)
		return
	}
	if o.stuck {
		pl := o.Polls[0]
		bad("", "task does not terminate: one height (goroutine %d, pass %d) asked PeerInfoManager.PeerHeight %d times %v without the task ending; 50 tries per height and pass over %d peers allow at most %d polls (bound used: %d)", pl.Gid, pl.Pass, pl.Count, pl.ByPeer, len(c.Peers), 50*len(c.Peers), o.pollBound)
		return
	}
	// --- 1. delivery ---
	got := map[int]bool{}
	wrongReply := map[int]bool{} // heights to which some peer answered with a block of another height (W, B)
	for _, q := range o.Reqs {
		if q.Beh == "W" || q.Beh == "B" {
			wrongReply[q.H] = true
		}
	}
	// what was delivered is judged as an object, not by its height getter: non-nil, byte-identical to a block that a
	// given peer put on the wire in reply to a request of that height, and attributed to that peer
	for _, d := range o.Delivered {
		if d.Nil {
			bad("", "a nil block was delivered to the blockchain (EventSyncBlock whose BlockPid.Block is nil)")
			continue
		}
		if d.Seq < 0 {
			bad("", "a block was delivered whose content no scripted peer sent (height h%d)", d.Height)
			continue
		}
		q := o.Reqs[d.Seq]
		if int64(q.H) != d.Height {
			f := ""
			if q.Beh == "W" || q.Beh == "B" { // signature: the delivered block is the wrong-height (or all-default) reply itself
				f = c35FindWrongHeight
			}
			bad(f, "the block delivered for the request of height h%d (answered by peer %d, behaviour %s) has height h%d", q.H, q.Peer, q.Beh, d.Height)
			continue
		}
		if !d.PidOK {
			bad("", "the block of height h%d was sent by peer %d but delivered under another source pid", d.Height, q.Peer)
			continue
		}
		got[q.H] = true
	}
	for h := 0; h < c.N; h++ {
		server := -1
		for i, pr := range c.Peers {
			if h < pr.Claim && c35Serves(pr.Beh[h]) {
				server = i
				break
			}
		}
		if server < 0 || got[h] {
			continue
		}
		f := ""
		if wrongReply[h] { // signature: the height was answered with a wrong-height block and is then missing
			f = c35FindWrongHeight
		}
		bad(f, "height h%d is served by peer %d (claims %d heights, behaviour %c) but the task ended without delivering it", h, server, c.Peers[server].Claim, c.Peers[server].Beh[h])
	}
	// --- 2. no re-asking within a pass; at most one second-chance pass per height ---
	type ph struct{ p, h, pass int }
	cnt := map[ph]int{}
	laterPass := map[int]int{}
	failedFirst := map[int]bool{}
	for _, q := range o.Reqs {
		cnt[ph{q.Peer, q.H, q.Pass}]++
		if q.Pass == 1 && !c35Serves(q.Beh[0]) {
			failedFirst[q.H] = true
		}
		if q.Pass > 1 {
			secondChance = true
			if prev, ok := laterPass[q.H]; ok && prev != q.Pass {
				bad("", "height h%d went through more than one second-chance pass (passes %d and %d): its peers were asked a third time", q.H, prev, q.Pass)
			}
			laterPass[q.H] = q.Pass
		}
	}
	keys := make([]ph, 0, len(cnt))
	for k := range cnt {
		keys = append(keys, k)
	}
	sort.Slice(keys, func(i, j int) bool {
		a, b := keys[i], keys[j]
		if a.h != b.h {
			return a.h < b.h
		}
		if a.pass != b.pass {
			return a.pass < b.pass
		}
		return a.p < b.p
	})
	for _, k := range keys {
		if cnt[k] < 2 {
			continue
		}
		reasked = true
		f := ""
		// signature of the stale-index finding: first pass, and at least two heights had a failing peer in that
		// pass (the shared list can only be corrupted by a removal made on behalf of another height)
		if k.pass == 1 && len(failedFirst) >= 2 {
			f = c35FindStaleIndex
		}
		bad(f, "peer %d failed height h%d (behaviour %c) and was asked for it %d times within pass %d of the same task", k.p, k.h, c.Peers[k.p].Beh[k.h], cnt[k], k.pass)
	}
	return
}

// ---- generator ----

func c35Gen(t *rapid.T) c35Case {
	n := rapid.OneOf(rapid.IntRange(1, 5), rapid.IntRange(1, 40), rapid.IntRange(10, 40)).Draw(t, "heights")
	// the event accepts any start <= end, so ranges that include the genesis height 0 (also [0,0]) are requested too
	zero := rapid.IntRange(0, 3).Draw(t, "fromHeight0") == 0
	if zero && rapid.IntRange(0, 2).Draw(t, "onlyHeight0") == 0 {
		n = 1
	}
	k := rapid.IntRange(2, c35MaxPeers).Draw(t, "peers")
	idx := make([]int, k)
	for i := range idx {
		idx[i] = i
	}
	rank := rapid.Permutation(idx).Draw(t, "latencyRank")
	c := c35Case{N: n}
	delays := 6 // at most six timed cells (L, T) per case keep the sequential second-chance pass short
	for i := 0; i < k; i++ {
		pr := c35Peer{LatencyMs: 10 * (rank[i] + 1), Claim: n, DelayMs: rapid.SampledFrom([]int{20, 80, 250}).Draw(t, "delayMs")}
		serve := rapid.SampledFrom([]int{90, 90, 50, 50, 10, 0}).Draw(t, "servePercent")
		beh := make([]byte, n)
		for h := range beh {
			if rapid.IntRange(0, 99).Draw(t, "cell") < serve {
				beh[h] = 'S'
				if rapid.IntRange(0, 11).Draw(t, "late") == 0 {
					beh[h] = 'L'
				}
			} else {
				beh[h] = rapid.SampledFrom([]byte("RRTENOVBGW")).Draw(t, "failure")
			}
			if beh[h] == 'L' || beh[h] == 'T' {
				if delays == 0 {
					beh[h] = map[byte]byte{'L': 'S', 'T': 'R'}[beh[h]]
				} else {
					delays--
				}
			}
		}
		pr.Beh = string(beh)
		c.Peers = append(c.Peers, pr)
	}
	// partial availability: some peers claim only a prefix of the range, or nothing at all (claim -1: no peer info
	// yet, PeerHeight answers -1). A height that is left with candidates that all claim less makes the task poll
	// (50 x 400 ms per pass), so every height above the lowest claim gets a serving peer among the tallest ones -
	// except one "starved" height in a minority of the thorough-tier cases (the quick tier gets its starved heights
	// from TestGenC35StarvedTriggers), built in one of the three ways such a height arises in practice:
	//   above    the range ends one height beyond what every given peer announced
	//   noinfo   the short peers have no peer info (-1) and every peer with info fails the height
	//   onlytall exactly one peer is tall enough for the height, and it fails it
	if n >= 2 && rapid.IntRange(0, 3).Draw(t, "partial") == 0 {
		variant := ""
		if lib.Thorough() && rapid.IntRange(0, 3).Draw(t, "starve") == 0 {
			variant = rapid.SampledFrom([]string{"above", "noinfo", "onlytall"}).Draw(t, "starveVariant")
		}
		low := rapid.IntRange(1, k-1).Draw(t, "lowPeers")
		if variant == "onlytall" {
			low = k - 1
		}
		top := n // claim of the tallest peers
		if variant == "above" {
			top = n - 1
		}
		minClaim := top
		lowWho := rapid.Permutation(idx).Draw(t, "lowWho")[:low]
		for i := range c.Peers {
			c.Peers[i].Claim = top
		}
		for _, i := range lowWho {
			cl := rapid.IntRange(-1, top-1).Draw(t, "claim")
			if variant == "noinfo" {
				cl = -1
			}
			c.Peers[i].Claim = cl
			if cl < 0 {
				cl = 0
			}
			if cl < minClaim {
				minClaim = cl
			}
		}
		var tall []int
		for i, pr := range c.Peers {
			if pr.Claim == top {
				tall = append(tall, i)
			}
		}
		set := func(i, h int, b byte) {
			bb := []byte(c.Peers[i].Beh)
			bb[h] = b
			c.Peers[i].Beh = string(bb)
		}
		starved := -1
		switch variant {
		case "above":
			starved = n - 1
		case "noinfo", "onlytall":
			starved = rapid.IntRange(minClaim, top-1).Draw(t, "starvedHeight")
			for _, i := range lowWho { // onlytall: nobody else may be tall enough for the starved height
				if c.Peers[i].Claim > starved {
					c.Peers[i].Claim = starved
				}
			}
		}
		for h := minClaim; h < top; h++ {
			if h == starved {
				for _, i := range tall {
					if c35Serves(c.Peers[i].Beh[h]) {
						set(i, h, 'R')
					}
				}
				continue
			}
			set(tall[rapid.IntRange(0, len(tall)-1).Draw(t, "rescuer")], h, 'S')
		}
	}
	if zero {
		c.Zero = true
		set := func(i, h int, b byte) {
			bb := []byte(c.Peers[i].Beh)
			bb[h] = b
			c.Peers[i].Beh = string(bb)
		}
		for i := range c.Peers {
			if c.Peers[i].Beh[0] == 'B' { // see the legend: at absolute height 0 this is a block
				set(i, 0, 'V')
			}
		}
		// half of these: the peer asked first for height 0 answers with an item that carries no block (every shape
		// of it) and another given peer serves the genuine block 0
		if rapid.Bool().Draw(t, "genesisItemWithoutBlock") {
			first, other := -1, -1
			for i, pr := range c.Peers {
				if pr.Claim > 0 && (first < 0 || pr.LatencyMs < c.Peers[first].LatencyMs) {
					first = i
				}
			}
			for _, i := range rapid.Permutation(idx).Draw(t, "genesisServer") {
				if i != first && c.Peers[i].Claim > 0 {
					other = i
					break
				}
			}
			if first >= 0 && other >= 0 {
				set(first, 0, rapid.SampledFrom([]byte("OV")).Draw(t, "itemShape"))
				set(other, 0, 'S')
			}
		}
	}
	return c
}

// c35StarvedCase builds (from a seeded source, for the plain test) a small case with exactly one starved height of
// the given variant (see c35Gen); every other height is served by a tallest peer.
func c35StarvedCase(rng *rand.Rand, variant string) c35Case {
	n, k := 2+rng.Intn(7), 2+rng.Intn(3)
	c := c35Case{N: n}
	top := n
	if variant == "above" {
		top = n - 1
	}
	starved := top - 1 - rng.Intn(top) // a height below top ...
	if variant == "above" {
		starved = n - 1 // ... or the one above every claim
	}
	tallPeer := rng.Intn(k)
	for i, r := range rng.Perm(k) {
		pr := c35Peer{LatencyMs: 10 * (r + 1), Claim: top, DelayMs: 20}
		beh := make([]byte, n)
		for h := range beh {
			beh[h] = 'S'
			if i != tallPeer && rng.Intn(10) < 4 {
				beh[h] = "RTENOGWB"[rng.Intn(8)]
			}
		}
		switch {
		case i == tallPeer:
			if starved < top {
				beh[starved] = "RTENOGW"[rng.Intn(7)]
			}
		case variant == "noinfo":
			pr.Claim = -1
		case variant == "onlytall":
			pr.Claim = rng.Intn(starved + 1) // 0..starved: not tall enough for the starved height
		case variant == "above" && rng.Intn(2) == 0:
			pr.Claim = rng.Intn(top + 1)
		}
		pr.Beh = string(beh)
		c.Peers = append(c.Peers, pr)
	}
	return c
}

// c35NonTrivial is the rule of the design: the peer the task tries first (lowest reported latency) fails some
// height that it claims to have and that another given peer serves.
func c35NonTrivial(c c35Case) bool {
	first := 0
	for i, pr := range c.Peers {
		if pr.LatencyMs < c.Peers[first].LatencyMs {
			first = i
		}
	}
	for h := 0; h < c.N; h++ {
		if h >= c.Peers[first].Claim || c35Serves(c.Peers[first].Beh[h]) {
			continue
		}
		for i, pr := range c.Peers {
			if i != first && h < pr.Claim && c35Serves(pr.Beh[h]) {
				return true
			}
		}
	}
	return false
}

func c35Classes(c c35Case, o c35Obs, reasked, second bool) {
	lib.Class(fmt.Sprintf("peers=%d", len(c.Peers)))
	switch {
	case c.N == 1:
		lib.Class("heights=1")
	case c.N <= 5:
		lib.Class("heights=2-5")
	case c.N <= 20:
		lib.Class("heights=6-20")
	default:
		lib.Class("heights=21-40")
	}
	seen := map[byte]bool{}
	partial, unserved := false, false
	for _, pr := range c.Peers {
		partial = partial || pr.Claim < c.N
		for h := 0; h < pr.Claim; h++ {
			seen[pr.Beh[h]] = true
		}
	}
	for h := 0; h < c.N; h++ {
		s := false
		for _, pr := range c.Peers {
			s = s || (h < pr.Claim && c35Serves(pr.Beh[h]))
		}
		unserved = unserved || !s
	}
	for b := range seen {
		lib.Class("case_with_behaviour_" + string(b))
	}
	if partial {
		lib.Class("partial_availability")
	}
	if c.Zero {
		lib.Class("range_starts_at_height_0")
		if c.N == 1 {
			lib.Class("range_is_0_0")
		}
		first, served := -1, false
		for i, pr := range c.Peers {
			if pr.Claim > 0 && (first < 0 || pr.LatencyMs < c.Peers[first].LatencyMs) {
				first = i
			}
		}
		for i, pr := range c.Peers {
			served = served || (i != first && pr.Claim > 0 && c35Serves(pr.Beh[0]))
		}
		if first >= 0 && served && strings.ContainsRune("OV", rune(c.Peers[first].Beh[0])) {
			lib.Class("height_0_first_peer_item_without_block_other_serves")
		}
	}
	noinfo, above, onlyTallFails, starved := false, false, false, false
	for _, pr := range c.Peers {
		noinfo = noinfo || pr.Claim < 0
	}
	for h := 0; h < c.N; h++ {
		eligible, serving, failing := 0, 0, 0
		for _, pr := range c.Peers {
			if h < pr.Claim {
				eligible++
				if c35Serves(pr.Beh[h]) {
					serving++
				} else {
					failing++
				}
			}
		}
		above = above || eligible == 0
		onlyTallFails = onlyTallFails || (eligible == 1 && failing == 1)
		starved = starved || (serving == 0 && eligible < len(c.Peers)) // ends up with candidates that all claim less: polls
	}
	if noinfo {
		lib.Class("peer_without_info_height_-1")
	}
	if above {
		lib.Class("height_above_every_claim")
	}
	if onlyTallFails {
		lib.Class("only_tall_enough_peer_fails")
	}
	if starved {
		lib.Class("starved_height_polls_50x400ms")
	}
	if o.maxPolls >= 50 {
		lib.Class("some_height_polled_PeerHeight_50_times_or_more_in_a_pass")
	}
	if unserved {
		lib.Class("some_height_unservable")
	}
	if second {
		lib.Class("second_chance_pass_ran")
	}
	if reasked {
		lib.Class("observed_reask_within_pass")
	}
	lib.ClassN("requests", len(o.Reqs))
	lib.ClassN("deliveries", len(o.Delivered))
}

// c35Judge applies the oracle to one executed case: a listed finding is tolerated by exact signature (with the
// entry absent the oracle is strict), anything else is a violation; then the case is counted.
func c35Judge(t lib.TB, test string, c c35Case, o c35Obs) {
	if o.discarded {
		lib.Class("discarded_stream_open_error")
		return
	}
	probs, reasked, second := c35Check(c, o)
	for _, p := range probs {
		if p.Finding != "" && lib.Known(p.Finding) {
			lib.ExcludedKnown(p.Finding)
			continue
		}
		lib.Violation(t, "C35", test, c35History(c, o), "%s", p.Msg)
	}
	c35Classes(c, o, reasked, second)
	if c35NonTrivial(c) {
		lib.Class("nontrivial")
		lib.NonTrivialCase(c)
	}
}

func TestPropDownloadDeliversServable(t *testing.T) {
	defer lib.Flush()
	c35Setup()
	rapid.Check(t, func(t *rapid.T) {
		c := c35Gen(t)
		lib.Eval()
		c35Judge(t, "TestPropDownloadDeliversServable", c, c35Exec(c))
	})
}

// TestGenC35StarvedTriggers (plain, one process per shard): the heights that make the task poll for a peer that
// will never become eligible cost 50 x 400 ms per pass in the unchanged code, so they are kept out of the quick
// rapid search and generated here instead, one seeded case per process, the variant chosen by the shard number.
func TestGenC35StarvedTriggers(t *testing.T) {
	defer lib.Flush()
	seed, _ := strconv.ParseInt(os.Getenv("VERIF_SHARD_SEED"), 10, 64)
	shard, _ := strconv.Atoi(os.Getenv("VERIF_SHARD"))
	variant := []string{"above", "noinfo", "onlytall"}[shard%3]
	c := c35StarvedCase(rand.New(rand.NewSource(seed)), variant)
	lib.Eval()
	lib.Class("starved_variant_" + variant)
	c35Judge(t, "TestGenC35StarvedTriggers", c, c35Exec(c))
}

// ---- pinned cases (plain tests, no generation) ----

// c35Pinned runs a fixed case; problems matching finding id go through the known-finding protocol, any other
// problem is a violation.
func c35Pinned(t *testing.T, test, id string, c c35Case, what string) {
	o := c35Exec(c)
	if o.discarded {
		lib.Inconclusive("C35 %s: a stream to a loopback peer could not be opened", test)
	}
	probs, _, _ := c35Check(c, o)
	hit := ""
	for _, p := range probs {
		if p.Finding != id || id == "" {
			lib.Violation(t, "C35", test, c35History(c, o), "%s", p.Msg)
		}
		hit = p.Msg
	}
	if hit != "" {
		lib.KnownOrViolation(t, "C35", test, id, c35History(c, o), what+" ["+hit+"]")
	}
}

// Minimal case of C35-wrong-height-block-accepted: one height, the preferred peer answers with a block of another
// height, the second peer serves. The height must still be delivered.
func TestKnown_C35WrongHeightBlockAccepted(t *testing.T) {
	defer lib.Flush()
	c35Pinned(t, "TestKnown_C35WrongHeightBlockAccepted", c35FindWrongHeight, c35Case{N: 1, Peers: []c35Peer{
		{LatencyMs: 10, Claim: 1, Beh: "W"}, {LatencyMs: 20, Claim: 1, Beh: "S"}}},
		"a reply carrying a block of another height is taken as success: the wrong block is handed to the blockchain and the requested height, which another given peer serves, is never delivered")
}

// Minimal case of C35-stale-index-removes-wrong-peer: peers A < B < C by latency, heights h0 and h1. Both heights
// start on A; A fails h0 first (list of h0 becomes B,C - the shared array now reads B,C,C), h0 moves on to B, then A
// fails h1. Removing A for h1 uses A's recorded index 0 in the shifted array and removes B instead: h1 is left with
// C,C, asks C, fails, removes one C, asks C again. Event gates make the order deterministic.
func TestKnown_C35StaleIndexRemovesWrongPeer(t *testing.T) {
	defer lib.Flush()
	c35Pinned(t, "TestKnown_C35StaleIndexRemovesWrongPeer", c35FindStaleIndex, c35Case{N: 2, Peers: []c35Peer{
		{LatencyMs: 10, Claim: 2, Beh: "RR"}, {LatencyMs: 20, Claim: 2, Beh: "SS"}, {LatencyMs: 30, Claim: 2, Beh: "SR"}},
		Gates: []c35Gate{{Peer: 0, H: 0, AfterPeer: 0, AfterH: 1}, {Peer: 0, H: 1, AfterPeer: 1, AfterH: 0}}},
		"after a concurrent removal for another height, Remove(task) deletes the entry at the peer's stale index: an innocent peer is dropped from this height's list and the peer that just failed stays in it and is asked for the same height again")
}

// Regression for the termination clause on the polling path: the only peer that claims height h1 refuses it, the
// other peer claims one height only. The task polls (50 x 400 ms per pass) and must then give up and return.
func TestRegress_C35StarvedHeightTerminates(t *testing.T) {
	defer lib.Flush()
	c35Pinned(t, "TestRegress_C35StarvedHeightTerminates", "", c35Case{N: 2, Peers: []c35Peer{
		{LatencyMs: 10, Claim: 2, Beh: "SR"}, {LatencyMs: 20, Claim: 1, Beh: "SS"}}}, "")
}

// Regression for the genesis boundary: range [0,0] (and [0,2]), the preferred peer answers height 0 with a
// well-formed reply whose only item carries no block (a transaction item / an item without value), the second peer
// serves block 0. The genuine block 0 must reach the blockchain, as a non-nil block, from the peer that sent it.
func TestRegress_C35GenesisItemWithoutBlock(t *testing.T) {
	defer lib.Flush()
	for _, c := range []c35Case{
		{Zero: true, N: 1, Peers: []c35Peer{{LatencyMs: 10, Claim: 1, Beh: "O"}, {LatencyMs: 20, Claim: 1, Beh: "S"}}},
		{Zero: true, N: 1, Peers: []c35Peer{{LatencyMs: 10, Claim: 1, Beh: "V"}, {LatencyMs: 20, Claim: 1, Beh: "S"}}},
		{Zero: true, N: 3, Peers: []c35Peer{{LatencyMs: 10, Claim: 3, Beh: "VSO"}, {LatencyMs: 20, Claim: 3, Beh: "SSS"}}},
	} {
		c35Pinned(t, "TestRegress_C35GenesisItemWithoutBlock", "", c, "")
	}
}
