package rpc

// C39 child: one fresh process per generated configuration (the rpc white/blacklists are process-global maps
// that only grow).  The child parses the generated TOML exactly as a node does, brings the three endpoints up
// through rpc.New/SetAPI/SetQueueClient, serves every request of the case and reports which registered
// handlers executed while each request was being served.  It takes no decisions: the parent owns the oracle.

import (
	"bytes"
	"compress/gzip"
	"context"
	"encoding/json"
	"fmt"
	"io"
	"net"
	"net/http"
	"net/http/httptest"
	"net/netip"
	"os"
	"strings"
	"sync"
	"testing"
	"time"

	"github.com/33cn/chain33/client/mocks"
	"github.com/33cn/chain33/queue"
	"github.com/33cn/chain33/types"
	"github.com/stretchr/testify/mock"
	"google.golang.org/grpc"
	"google.golang.org/grpc/credentials/insecure"
	grpcgzip "google.golang.org/grpc/encoding/gzip"
	rpb "google.golang.org/grpc/reflection/grpc_reflection_v1alpha"
)

// c39Cfg is the generated [rpc] section.  nil list = key absent.
type c39Cfg struct {
	Whitelist []string `json:"whitelist,omitempty"`
	Whitlist  []string `json:"whitlist,omitempty"` // legacy misspelling, still accepted
	JWhite    []string `json:"jrpcFuncWhitelist,omitempty"`
	JBlack    []string `json:"jrpcFuncBlacklist,omitempty"`
	GWhite    []string `json:"grpcFuncWhitelist,omitempty"`
	GBlack    []string `json:"grpcFuncBlacklist,omitempty"`
	User      string   `json:"jrpcUserName,omitempty"`
	Pass      string   `json:"jrpcUserPasswd,omitempty"`
}

// c39Req is one generated request.  Kind: jrpc | eth (HTTP through httptest with RemoteAddr = Remote),
// grpc | grpcstream | grpcreflect (real gRPC connection whose server-side RemoteAddr is the IP literal Remote).
type c39Req struct {
	Kind       string      `json:"kind"`
	Remote     string      `json:"remote"`
	HTTP       string      `json:"http,omitempty"`
	Path       string      `json:"path,omitempty"`
	Headers    [][2]string `json:"headers,omitempty"`
	Body       string      `json:"body,omitempty"`
	GzipBody   bool        `json:"gzipBody,omitempty"`
	FullMethod string      `json:"fullMethod,omitempty"`
	GzipCall   bool        `json:"gzipCall,omitempty"`
	// generator's bookkeeping, never read by the child and never used to decide a violation:
	Target string `json:"target,omitempty"` // handler func name a servable request is aimed at ("" = odd shape)
	Shape  string `json:"shape,omitempty"`  // label of the shape variant (class counter)
	Group  int    `json:"group,omitempty"`  // differential group (same client address on the three endpoints)
	Sanity bool   `json:"sanity,omitempty"` // fixture-sanity request added by the harness (loopback, canonical)
}

type c39Obs struct {
	Ran    []string `json:"ran,omitempty"` // func names of the handlers that executed ("?" = success reply, no recorder hit)
	Status int      `json:"status,omitempty"`
	Resp   string   `json:"resp,omitempty"`
	Err    string   `json:"err,omitempty"`
}

type c39Case struct {
	Cfg  *c39Cfg  `json:"cfg"`
	Reqs []c39Req `json:"reqs"`
}

func (c *c39Cfg) toml() string {
	var b strings.Builder
	b.WriteString("[rpc]\njrpcBindAddr=\"localhost:0\"\ngrpcBindAddr=\"localhost:0\"\n")
	list := func(key string, v []string) {
		if v == nil {
			return
		}
		q := make([]string, len(v))
		for i, s := range v {
			q[i] = c39TomlStr(s)
		}
		fmt.Fprintf(&b, "%s=[%s]\n", key, strings.Join(q, ", "))
	}
	list("whitelist", c.Whitelist)
	list("whitlist", c.Whitlist)
	list("jrpcFuncWhitelist", c.JWhite)
	list("jrpcFuncBlacklist", c.JBlack)
	list("grpcFuncWhitelist", c.GWhite)
	list("grpcFuncBlacklist", c.GBlack)
	if c.User != "" {
		fmt.Fprintf(&b, "jrpcUserName=%s\n", c39TomlStr(c.User))
	}
	if c.Pass != "" {
		fmt.Fprintf(&b, "jrpcUserPasswd=%s\n", c39TomlStr(c.Pass))
	}
	base := types.GetDefaultCfgstring()
	i, j := strings.Index(base, "[rpc]\n"), strings.Index(base, "[rpc.sub.eth]")
	if i < 0 || j < i {
		panic("c39: default config layout changed")
	}
	return base[:i] + b.String() + base[j:]
}

// c39TomlStr renders a TOML basic string; the generators only produce printable ASCII.
func c39TomlStr(s string) string {
	return `"` + strings.NewReplacer(`\`, `\\`, `"`, `\"`).Replace(s) + `"`
}

// ---- invocation recorder -------------------------------------------------------------------------------------

var c39Rec struct {
	sync.Mutex
	names []string
}

func c39Mark(name string) {
	c39Rec.Lock()
	c39Rec.names = append(c39Rec.names, name)
	c39Rec.Unlock()
}

func c39Take() []string {
	c39Rec.Lock()
	defer c39Rec.Unlock()
	n := c39Rec.names
	c39Rec.names = nil
	return n
}

// C39Probe is registered on the JSON-RPC server under the name "Probe", the way plugins register their services.
type C39Probe struct{}

func (*C39Probe) Alpha(in *json.RawMessage, out *interface{}) error {
	c39Mark("Alpha")
	*out = "ran"
	return nil
}
func (*C39Probe) Beta(in *json.RawMessage, out *interface{}) error {
	c39Mark("Beta")
	*out = "ran"
	return nil
}
func (*C39Probe) Version(in *json.RawMessage, out *interface{}) error {
	c39Mark("Version")
	*out = "ran"
	return nil
}
func (*C39Probe) CloseQueue(in *json.RawMessage, out *interface{}) error {
	c39Mark("CloseQueue")
	*out = "ran"
	return nil
}

// ---- fake-remote gRPC listener -------------------------------------------------------------------------------
// The sandbox only has loopback interfaces.  Every gRPC client address of the case gets its own loopback source
// address 127.77.x.y; the listener presents the connection to the gRPC server with the case's address instead,
// as *net.TCPAddr, which is what a real TCP listener yields.

type c39Conn struct {
	net.Conn
	remote net.Addr
}

func (c *c39Conn) RemoteAddr() net.Addr { return c.remote }

type c39Listener struct {
	net.Listener
	table []net.Addr
}

func (l *c39Listener) Accept() (net.Conn, error) {
	c, err := l.Listener.Accept()
	if err != nil {
		return nil, err
	}
	ip := c.RemoteAddr().(*net.TCPAddr).IP.To4()
	idx := int(ip[2])<<8 | int(ip[3])
	if ip[1] != 77 || idx >= len(l.table) {
		c.Close()
		return nil, fmt.Errorf("c39: unexpected client %v", c.RemoteAddr())
	}
	return &c39Conn{Conn: c, remote: l.table[idx]}, nil
}

func c39Fail(format string, a ...interface{}) {
	fmt.Printf("C39-CHILD-FAIL "+format+"\n", a...)
	os.Exit(4)
}

// TestC39Child executes one case file; it is a no-op unless C39_CHILD_CASE is set (never matches the pinned-run regexp).
func TestC39Child(t *testing.T) {
	path := os.Getenv("C39_CHILD_CASE")
	if path == "" {
		t.Skip("child mode only")
	}
	raw, err := os.ReadFile(path)
	if err != nil {
		c39Fail("read case: %v", err)
	}
	var cs c39Case
	if err := json.Unmarshal(raw, &cs); err != nil {
		c39Fail("decode case: %v", err)
	}
	if len(remoteIPWhitelist)+len(jrpcFuncWhitelist)+len(jrpcFuncBlacklist)+len(grpcFuncWhitelist)+len(grpcFuncBlacklist) != 0 {
		c39Fail("access lists are not empty in a fresh process")
	}
	cfg := types.NewChain33Config(cs.Cfg.toml())
	api := new(mocks.QueueProtocolAPI)
	api.On("GetConfig", mock.Anything).Return(cfg)
	api.On("Close").Return()
	api.On("CloseQueue").Return(&types.Reply{IsOk: true}, nil)
	rec := func(name string) func(mock.Arguments) { return func(mock.Arguments) { c39Mark(name) } }
	api.On("Version").Run(rec("Version")).Return(&types.VersionInfo{Chain33: "c39"}, nil)
	api.On("IsSync").Run(rec("IsSync")).Return(&types.Reply{IsOk: true}, nil)
	api.On("GetLastHeader").Run(rec("GetLastHeader")).Return(&types.Header{Height: 39}, nil)
	api.On("AddPushSubscribe", mock.Anything).Run(rec("SubEvent")).Return(&types.ReplySubscribePush{IsOk: false, Msg: "c39"}, nil)
	q := queue.New("c39")
	q.SetConfig(cfg)
	r := New(cfg) // installs the lists (InitCfg)
	r.SetAPI(api)
	r.SetQueueClient(q.Client()) // builds and starts the gRPC, JSON-RPC and Ethereum-compatible servers
	if err := r.JRPC().RegisterName("Probe", &C39Probe{}); err != nil {
		c39Fail("register probe: %v", err)
	}
	jh := VerifHandler(r.japi)
	eh, ok := r.eapi.(http.Handler)
	if jh == nil || !ok {
		c39Fail("handlers unavailable (hook H2 missing?)")
	}

	// gRPC: one connection per distinct client address
	var table []net.Addr
	index := map[string]int{}
	for _, rq := range cs.Reqs {
		if strings.HasPrefix(rq.Kind, "grpc") {
			if _, seen := index[rq.Remote]; !seen {
				a, err := netip.ParseAddr(rq.Remote)
				if err != nil {
					c39Fail("grpc remote %q: %v", rq.Remote, err)
				}
				index[rq.Remote] = len(table)
				table = append(table, &net.TCPAddr{IP: net.IP(a.AsSlice()), Port: 40000 + len(table), Zone: a.Zone()})
			}
		}
	}
	var gaddr string
	if len(table) > 0 {
		tl, err := net.Listen("tcp4", "127.0.0.1:0")
		if err != nil {
			c39Fail("listen: %v", err)
		}
		gaddr = tl.Addr().String()
		go r.gapi.s.Serve(&c39Listener{Listener: tl, table: table})
	}
	conns := map[string]*grpc.ClientConn{}
	dial := func(remote string) *grpc.ClientConn {
		if c := conns[remote]; c != nil {
			return c
		}
		idx := index[remote]
		d := &net.Dialer{LocalAddr: &net.TCPAddr{IP: net.IPv4(127, 77, byte(idx>>8), byte(idx))}}
		ctx, cancel := context.WithTimeout(context.Background(), 20*time.Second)
		defer cancel()
		c, err := grpc.DialContext(ctx, gaddr, grpc.WithTransportCredentials(insecure.NewCredentials()), grpc.WithBlock(),
			grpc.WithContextDialer(func(ctx context.Context, addr string) (net.Conn, error) { return d.DialContext(ctx, "tcp4", addr) }))
		if err != nil {
			c39Fail("grpc dial as %s: %v", remote, err)
		}
		conns[remote] = c
		return c
	}

	obs := make([]c39Obs, len(cs.Reqs))
	for i := range cs.Reqs {
		rq := &cs.Reqs[i]
		o := &obs[i]
		c39Take()
		switch rq.Kind {
		case "jrpc", "eth":
			var body io.Reader = strings.NewReader(rq.Body)
			if rq.GzipBody {
				var zb bytes.Buffer
				zw := gzip.NewWriter(&zb)
				zw.Write([]byte(rq.Body))
				zw.Close()
				body = &zb
			}
			hr := httptest.NewRequest(rq.HTTP, "http://node.example"+rq.Path, body)
			hr.RemoteAddr = rq.Remote
			for _, h := range rq.Headers {
				hr.Header.Add(h[0], h[1])
			}
			w := httptest.NewRecorder()
			if rq.Kind == "jrpc" {
				jh.ServeHTTP(w, hr)
			} else {
				eh.ServeHTTP(w, hr)
			}
			o.Status = w.Code
			rb := w.Body.Bytes()
			if w.Header().Get("Content-Encoding") == "gzip" {
				if zr, err := gzip.NewReader(bytes.NewReader(rb)); err == nil {
					if plain, _ := io.ReadAll(zr); len(plain) > 0 {
						rb = plain
					}
				}
			}
			o.Resp = string(rb)
			if len(o.Resp) > 300 {
				o.Resp = o.Resp[:300]
			}
			o.Ran = c39Take()
			var reply struct {
				Result *json.RawMessage `json:"result"`
				Error  *json.RawMessage `json:"error"`
			}
			if len(o.Ran) == 0 && w.Code == 200 && json.Unmarshal(rb, &reply) == nil && reply.Result != nil &&
				string(*reply.Result) != "null" && (reply.Error == nil || string(*reply.Error) == "null") {
				if rq.Kind == "eth" {
					o.Ran = []string{"web3_clientVersion"}
				} else {
					o.Ran = []string{"?"}
				}
			}
		case "grpc", "grpcstream", "grpcreflect":
			conn := dial(rq.Remote)
			ctx, cancel := context.WithTimeout(context.Background(), 20*time.Second)
			var opts []grpc.CallOption
			if rq.GzipCall {
				opts = append(opts, grpc.UseCompressor(grpcgzip.Name))
			}
			var err error
			switch rq.Kind {
			case "grpc":
				err = conn.Invoke(ctx, rq.FullMethod, &types.ReqNil{}, &types.ReqNil{}, opts...)
				o.Ran = c39Take()
				if err == nil && len(o.Ran) == 0 {
					o.Ran = []string{"?"}
				}
			case "grpcstream":
				var st grpc.ClientStream
				st, err = conn.NewStream(ctx, &grpc.StreamDesc{ServerStreams: true}, rq.FullMethod, opts...)
				if err == nil {
					if err = st.SendMsg(&types.ReqSubscribe{Name: fmt.Sprintf("c39-%d", i)}); err == nil {
						st.CloseSend()
						err = st.RecvMsg(&types.PushData{}) // returns when the handler has returned
					}
				}
				o.Ran = c39Take()
			case "grpcreflect":
				var st grpc.ClientStream
				st, err = conn.NewStream(ctx, &grpc.StreamDesc{ServerStreams: true, ClientStreams: true}, rq.FullMethod, opts...)
				if err == nil {
					err = st.SendMsg(&rpb.ServerReflectionRequest{MessageRequest: &rpb.ServerReflectionRequest_ListServices{ListServices: "*"}})
					if err == nil {
						var resp rpb.ServerReflectionResponse
						if err = st.RecvMsg(&resp); err == nil && resp.GetListServicesResponse() != nil {
							o.Ran = []string{"ServerReflectionInfo"}
						}
					}
					st.CloseSend()
				}
				c39Take()
			}
			if err != nil {
				o.Err = err.Error()
				if ctx.Err() != nil {
					c39Fail("gRPC request %d timed out: %v", i, err)
				}
			}
			cancel()
		default:
			c39Fail("unknown kind %q", rq.Kind)
		}
	}
	out, _ := json.Marshal(obs)
	if err := os.WriteFile(os.Getenv("C39_CHILD_OUT"), out, 0o644); err != nil {
		c39Fail("write observations: %v", err)
	}
}
