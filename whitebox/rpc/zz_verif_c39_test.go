package rpc

// C39 — RPC access control holds for every request shape.
//
// Parent side: generates one configuration + a few hundred requests per rapid case, has a fresh child process
// (zz_verif_c39_child_test.go) serve them through the real JSON-RPC handler (hook H2), a real gRPC server whose
// listener presents arbitrary client addresses, and the Ethereum-compatible HTTP handler, and then judges the
// child's observations ("which registered handlers executed while this request was served") with reference
// predicates written from the property text only.  The verdict never depends on how a request was spelled:
//
//   handler f ran for a non-loopback client  =>  address on the configured IP whitelist (or wildcard)
//                                                AND f whitelisted AND f not blacklisted
//                                                AND (JSON-RPC, auth configured) correct basic-auth credentials presented
//   non-empty IP whitelist under either key   =>  eth / JSON-RPC / gRPC admit the same client addresses

import (
	"context"
	"encoding/base64"
	"encoding/json"
	"fmt"
	"net/netip"
	"os"
	"os/exec"
	"path/filepath"
	"sort"
	"strings"
	"testing"
	"time"

	"pgregory.net/rapid"
	"verifharness/lib"
)

const (
	c39Prop     = "C39"
	c39EthID    = "C39-eth-legacy-whitlist"
	c39StreamID = "C39-grpc-stream-ungated"
	c39Reflect  = "/grpc.reflection.v1alpha.ServerReflection/ServerReflectionInfo"
	c39EthBody  = `{"jsonrpc":"2.0","id":1,"method":"web3_clientVersion","params":[]}`
)

var (
	c39JTargets = []string{"Probe.Alpha", "Probe.Beta", "Probe.Version", "Probe.CloseQueue", "Chain33.Version", "Chain33.IsSync"}
	c39JFuncs   = []string{"Alpha", "Beta", "Version", "IsSync", "CloseQueue"}
	c39GUnary   = []string{"Version", "IsSync", "GetLastHeader"}
	c39GFuncs   = []string{"Version", "IsSync", "GetLastHeader", "SubEvent", "ServerReflectionInfo", "CloseQueue"}
)

// ---- reference predicates (from the property statement; deliberately the most permissive reading, because the
// property is "runs only if") ---------------------------------------------------------------------------------

type c39Client struct {
	ok   bool // a well-formed IP (and port, for HTTP)
	addr netip.Addr
	raw  string
}

func c39ParseRemote(kind, remote string) c39Client {
	if strings.HasPrefix(kind, "grpc") {
		a, err := netip.ParseAddr(remote)
		return c39Client{err == nil, a, remote}
	}
	ap, err := netip.ParseAddrPort(remote)
	return c39Client{err == nil, ap.Addr(), remote}
}

func (cl c39Client) loopback() bool { return cl.ok && cl.addr.Unmap().WithZone("").IsLoopback() }

// ipAllowed: the address is on the configured whitelist, under either key, compared as addresses (any spelling,
// IPv4-mapped = IPv4); "*" and the unspecified address 0.0.0.0 (documented by the repo's own tests) are wildcards.
// No list configured = no address is on it.  A malformed RemoteAddr is only compared textually.
func (c *c39Cfg) ipAllowed(cl c39Client) bool {
	for _, e := range append(append([]string{}, c.Whitelist...), c.Whitlist...) {
		if e == "*" || e == "0.0.0.0" {
			return true
		}
		if !cl.ok {
			if strings.Contains(cl.raw, e) {
				return true
			}
			continue
		}
		if ea, err := netip.ParseAddr(e); e == cl.addr.String() || (err == nil && ea.Unmap() == cl.addr.Unmap()) {
			return true
		}
	}
	return false
}

func c39In(list []string, s string) bool {
	for _, e := range list {
		if e == s {
			return true
		}
	}
	return false
}

// no method whitelist configured, or "*" in it = every method whitelisted (types/cfg.go: default "*").
func c39White(list []string, f string) bool {
	return len(list) == 0 || c39In(list, "*") || c39In(list, f)
}

func (c *c39Cfg) lists(kind string) (white, black []string) {
	if kind == "jrpc" {
		return c.JWhite, c.JBlack
	}
	return c.GWhite, c.GBlack
}

// authOK: not configured, or some Authorization header carries exactly the configured user:password (any scheme
// token, any base64 alphabet: the client demonstrably knows the credentials).
func (c *c39Cfg) authOK(headers [][2]string) bool {
	if c.User == "" && c.Pass == "" {
		return true
	}
	for _, h := range headers {
		if !strings.EqualFold(h[0], "Authorization") {
			continue
		}
		cands := []string{h[1], strings.TrimPrefix(h[1], "Basic")}
		if i := strings.IndexByte(h[1], ' '); i >= 0 {
			cands = append(cands, strings.TrimSpace(h[1][i+1:]))
		}
		for _, cand := range cands {
			for _, enc := range []*base64.Encoding{base64.StdEncoding, base64.RawStdEncoding, base64.URLEncoding, base64.RawURLEncoding} {
				if b, err := enc.DecodeString(cand); err == nil && string(b) == c.User+":"+c.Pass {
					return true
				}
			}
		}
	}
	return false
}

// clauses returns the names of the access-control clauses that do NOT hold for handler f and this request.
func (c *c39Cfg) clauses(rq *c39Req, cl c39Client, f string) (failed []string) {
	if !c.ipAllowed(cl) {
		failed = append(failed, "address not on the IP whitelist")
	}
	white, black := c.lists(rq.Kind)
	if f != "?" && !c39White(white, f) {
		failed = append(failed, "method not whitelisted")
	}
	if c39In(black, f) {
		failed = append(failed, "method blacklisted")
	}
	if rq.Kind == "jrpc" && !c.authOK(rq.Headers) {
		failed = append(failed, "basic auth not satisfied")
	}
	return failed
}

type c39Finding struct {
	Msg   string   `json:"msg"`
	Known string   `json:"matches_known_signature,omitempty"`
	Cfg   *c39Cfg  `json:"cfg"`
	Reqs  []c39Req `json:"requests"`
	Obs   []c39Obs `json:"observations"`
}

// c39Judge is the oracle.  It is strict; callers decide what to do with findings that match a known signature.
func c39Judge(cs *c39Case, obs []c39Obs) (out []c39Finding) {
	c := cs.Cfg
	type leg struct {
		i        int
		admitted bool
	}
	groups := map[int]map[string]leg{}
	for i := range cs.Reqs {
		rq := &cs.Reqs[i]
		if rq.Group > 0 {
			if groups[rq.Group] == nil {
				groups[rq.Group] = map[string]leg{}
			}
			groups[rq.Group][rq.Kind] = leg{i, len(obs[i].Ran) > 0}
		}
		cl := c39ParseRemote(rq.Kind, rq.Remote)
		if rq.Kind == "eth" || cl.loopback() {
			continue // sentence 1 of the property constrains JSON-RPC / gRPC methods for non-loopback clients
		}
		for _, f := range obs[i].Ran {
			if failed := c.clauses(rq, cl, f); len(failed) > 0 {
				known := ""
				if rq.Kind == "grpcstream" || rq.Kind == "grpcreflect" {
					known = c39StreamID // signature: the method that ran is a streaming gRPC method
				}
				out = append(out, c39Finding{Msg: fmt.Sprintf("%s handler %s ran for client %q although: %s", rq.Kind, f, rq.Remote, strings.Join(failed, "; ")),
					Known: known, Cfg: c, Reqs: []c39Req{*rq}, Obs: []c39Obs{obs[i]}})
			}
		}
	}
	// sentence 2: with a non-empty IP whitelist under either key the three endpoints admit the same addresses.
	if len(c.Whitelist)+len(c.Whitlist) == 0 {
		return out
	}
	var ids []int
	for g := range groups {
		ids = append(ids, g)
	}
	sort.Ints(ids)
	for _, g := range ids {
		legs := groups[g]
		pairs := [][2]string{{"eth", "jrpc"}, {"eth", "grpc"}, {"jrpc", "grpc"}}
		for _, p := range pairs {
			a, okA := legs[p[0]]
			b, okB := legs[p[1]]
			if !okA || !okB || a.admitted == b.admitted {
				continue
			}
			known := ""
			// signature of the eth-ignores-legacy-key defect: the legacy key is set and either it is the only key and
			// eth admits an address the other endpoint refuses, or it is the wildcard next to a concrete `whitelist`
			// and eth refuses an address the other endpoint admits.
			if p[0] == "eth" && len(c.Whitlist) > 0 &&
				((len(c.Whitelist) == 0 && a.admitted) || (len(c.Whitelist) > 0 && len(c.Whitlist) == 1 && c.Whitlist[0] == "*" && !a.admitted)) {
				known = c39EthID
			}
			out = append(out, c39Finding{Msg: fmt.Sprintf("client %q: %s admitted=%v but %s admitted=%v under a non-empty IP whitelist (whitelist=%q whitlist=%q)",
				cs.Reqs[a.i].Remote, p[0], a.admitted, p[1], b.admitted, c.Whitelist, c.Whitlist),
				Known: known, Cfg: c, Reqs: []c39Req{cs.Reqs[a.i], cs.Reqs[b.i]}, Obs: []c39Obs{obs[a.i], obs[b.i]}})
			break
		}
	}
	return out
}

// ---- child orchestration ----------------------------------------------------------------------------------------

func c39RunChild(cs *c39Case) []c39Obs {
	base := os.Getenv("VERIF_WORK")
	if base == "" {
		base = os.TempDir()
	}
	dir, err := os.MkdirTemp(base, "c39-")
	if err != nil {
		lib.Inconclusive("C39 scratch dir: %v", err)
	}
	defer os.RemoveAll(dir)
	raw, _ := json.Marshal(cs)
	casePath, outPath := filepath.Join(dir, "case.json"), filepath.Join(dir, "obs.json")
	if err := os.WriteFile(casePath, raw, 0o644); err != nil {
		lib.Inconclusive("C39 write case: %v", err)
	}
	exe, err := os.Executable()
	if err != nil {
		lib.Inconclusive("C39 executable: %v", err)
	}
	ctx, cancel := context.WithTimeout(context.Background(), 240*time.Second)
	defer cancel()
	cmd := exec.CommandContext(ctx, exe, "-test.run", "^TestC39Child$", "-test.timeout", "230s")
	cmd.Dir = dir
	for _, kv := range os.Environ() {
		if !strings.HasPrefix(kv, "VERIF_STATS=") && !strings.HasPrefix(kv, "VERIF_REPLAY_OUT=") {
			cmd.Env = append(cmd.Env, kv)
		}
	}
	cmd.Env = append(cmd.Env, "C39_CHILD_CASE="+casePath, "C39_CHILD_OUT="+outPath)
	outb, err := cmd.CombinedOutput()
	var obs []c39Obs
	if err == nil {
		var b []byte
		if b, err = os.ReadFile(outPath); err == nil {
			err = json.Unmarshal(b, &obs)
		}
	}
	if err != nil || len(obs) != len(cs.Reqs) {
		tail := string(outb)
		if len(tail) > 3000 {
			tail = tail[len(tail)-3000:]
		}
		lib.Inconclusive("C39 child did not complete (%v, %d/%d observations); cfg=%s; output tail: %s", err, len(obs), len(cs.Reqs), raw[:c39Min(len(raw), 600)], strings.ReplaceAll(tail, "\n", " | "))
	}
	for i, rq := range cs.Reqs {
		if rq.Sanity && len(obs[i].Ran) == 0 {
			lib.Inconclusive("C39 fixture sanity: canonical loopback %s request did not run (%+v)", rq.Kind, obs[i])
		}
	}
	return obs
}

func c39Min(a, b int) int {
	if a < b {
		return a
	}
	return b
}

// ---- generators -------------------------------------------------------------------------------------------------

func c39Pick[T any](t *rapid.T, label string, xs ...T) T { return rapid.SampledFrom(xs).Draw(t, label) }

func c39GenAddr(t *rapid.T, label string) netip.Addr {
	u8 := func(l string) byte { return rapid.Uint8().Draw(t, label+l) }
	if rapid.IntRange(0, 2).Draw(t, label+"-fam") > 0 {
		return netip.AddrFrom4([4]byte{c39Pick[byte](t, label+"-net", 10, 172, 192, 8, 203, 100), u8("-b"), u8("-c"), rapid.Uint8Range(1, 254).Draw(t, label+"-d")})
	}
	var b [16]byte
	copy(b[:], c39Pick(t, label+"-pfx", []byte{0x20, 0x01, 0x0d, 0xb8}, []byte{0xfd, 0x00}, []byte{0x24, 0x00, 0xcb, 0x00}))
	b[rapid.IntRange(4, 13).Draw(t, label+"-pos")] = u8("-mid")
	b[14], b[15] = u8("-e"), rapid.Uint8Range(1, 254).Draw(t, label+"-f")
	return netip.AddrFrom16(b)
}

func c39GenIPList(t *rapid.T, label string) []string {
	form := c39Pick(t, label+"-form", "star", "list", "list", "list", "list", "list", "list", "zero", "starplus", "withloop")
	if form == "star" {
		return []string{"*"}
	}
	var l []string
	for i, n := 0, rapid.IntRange(1, 3).Draw(t, label+"-n"); i < n; i++ {
		a := c39GenAddr(t, fmt.Sprintf("%s-%d", label, i))
		s := a.String()
		if a.Is6() && rapid.IntRange(0, 9).Draw(t, label+"-spell") == 0 {
			s = c39Pick(t, label+"-alt", strings.ToUpper(s), a.StringExpanded()) // non-canonical spelling of the entry
		}
		l = append(l, s)
	}
	switch form {
	case "zero":
		l = append(l, "0.0.0.0")
	case "starplus":
		l = append([]string{"*"}, l...)
	case "withloop":
		l = append(l, "127.0.0.1")
	}
	return l
}

func c39GenFuncList(t *rapid.T, label string, pool []string, white bool) []string {
	forms := []string{"absent", "absent", "absent", "subset", "subset", "subset"}
	if white {
		forms = []string{"absent", "absent", "star", "subset", "subset", "subset", "subset", "subset", "starplus"}
	}
	form := c39Pick(t, label+"-form", forms...)
	switch form {
	case "absent":
		return nil
	case "star":
		return []string{"*"}
	}
	l := rapid.SliceOfNDistinct(rapid.SampledFrom(pool), 1, 3, func(s string) string { return s }).Draw(t, label)
	if rapid.IntRange(0, 4).Draw(t, label+"-decoy") == 0 {
		l = append(l, c39Pick(t, label+"-decoyv", strings.ToLower(l[0]), "Probe."+l[0], "Gamma", l[0]+" "))
	}
	if form == "starplus" {
		l = append(l, "*")
	}
	return l
}

func c39GenCfg(t *rapid.T) (*c39Cfg, string) {
	c := &c39Cfg{}
	key := c39Pick(t, "ipKey", "new", "new", "new", "legacy", "legacy", "legacy", "both", "none")
	switch key {
	case "new":
		c.Whitelist = c39GenIPList(t, "wl")
	case "legacy":
		c.Whitlist = c39GenIPList(t, "wl")
	case "both":
		c.Whitelist = c39GenIPList(t, "wl")
		c.Whitlist = c39GenIPList(t, "legacy")
	}
	c.JWhite = c39GenFuncList(t, "jwhite", c39JFuncs, true)
	c.JBlack = c39GenFuncList(t, "jblack", c39JFuncs, false)
	c.GWhite = c39GenFuncList(t, "gwhite", c39GFuncs, true)
	c.GBlack = c39GenFuncList(t, "gblack", c39GFuncs, false)
	if rapid.IntRange(0, 9).Draw(t, "auth") < 6 {
		alpha := []rune("abcXYZ019:_-@ .")
		c.User = c39Pick(t, "user", "node", "admin", "Chain33-user", "")
		c.Pass = rapid.StringOfN(rapid.SampledFrom(alpha), 0, 12, -1).Draw(t, "pass")
		if c.User == "" && c.Pass == "" {
			c.Pass = "p"
		}
	}
	return c, key
}

type c39Remote struct {
	http, ip, class string
}

// c39GenRemote draws a client address; ip == "" for a malformed RemoteAddr (HTTP endpoints only).
func c39GenRemote(t *rapid.T, c *c39Cfg, label string, validOnly bool) c39Remote {
	var listed []netip.Addr
	for _, e := range append(append([]string{}, c.Whitelist...), c.Whitlist...) {
		if a, err := netip.ParseAddr(e); err == nil && !a.IsUnspecified() && !a.IsLoopback() {
			listed = append(listed, a)
		}
	}
	classes := []string{"listed", "listed", "listed", "listed", "mapped", "near", "unlisted", "unlisted", "unlisted", "loop4", "loop6", "loopmapped", "zone", "unspec"}
	if !validOnly {
		classes = append(classes, "malformed", "malformed")
	}
	class := c39Pick(t, label+"-class", classes...)
	if len(listed) == 0 && (class == "listed" || class == "mapped" || class == "near") {
		class = "unlisted"
	}
	port := uint16(rapid.IntRange(1024, 65535).Draw(t, label+"-port"))
	loop4 := func() netip.Addr {
		return netip.AddrFrom4([4]byte{127, rapid.Uint8().Draw(t, label+"-l1"), rapid.Uint8().Draw(t, label+"-l2"), rapid.Uint8Range(1, 254).Draw(t, label+"-l3")})
	}
	var a netip.Addr
	switch class {
	case "listed", "mapped", "near":
		a = c39Pick(t, label+"-which", listed...)
		if class == "mapped" && a.Is4() {
			a = netip.AddrFrom16(a.As16()) // ::ffff:a.b.c.d
		} else if class == "near" {
			a = a.Next()
		}
	case "unlisted":
		a = c39GenAddr(t, label+"-u")
	case "loop4":
		a = c39Pick(t, label+"-lo", netip.MustParseAddr("127.0.0.1"), loop4())
	case "loop6":
		a = netip.IPv6Loopback()
	case "loopmapped":
		a = netip.AddrFrom16(loop4().As16())
	case "zone":
		a = netip.MustParseAddr("fe80::1").WithZone(c39Pick(t, label+"-zone", "eth0", "lo"))
	case "unspec":
		a = c39Pick(t, label+"-un", netip.IPv4Unspecified(), netip.IPv6Unspecified())
	case "malformed":
		s := "10.1.2.3"
		if len(listed) > 0 {
			s = listed[0].String()
		}
		m := c39Pick(t, label+"-mal", s, "", "garbage:1", ":80", "["+s+"]:80", s+":80:90", "localhost:80", "0"+s+":80", "*:80", " "+s+":80", s+".:80", s+":", "::1", "[::1]", "["+s+":80")
		return c39Remote{m, "", "malformed"}
	}
	return c39Remote{netip.AddrPortFrom(a, port).String(), a.String(), class}
}

func c39Basic(u, p string) string {
	return "Basic " + base64.StdEncoding.EncodeToString([]byte(u+":"+p))
}

func c39GenAuth(t *rapid.T, c *c39Cfg, label string) ([][2]string, string) {
	h := func(v ...string) (out [][2]string) {
		for _, s := range v {
			out = append(out, [2]string{"Authorization", s})
		}
		return out
	}
	if c.User == "" && c.Pass == "" {
		if rapid.IntRange(0, 4).Draw(t, label+"-stray") == 0 {
			return h(c39Basic("x", "y")), "stray"
		}
		return nil, "off"
	}
	good := c39Basic(c.User, c.Pass)
	raw := []byte(c.User + ":" + c.Pass)
	swap := strings.Map(func(r rune) rune {
		switch {
		case r >= 'a' && r <= 'z':
			return r - 32
		case r >= 'A' && r <= 'Z':
			return r + 32
		}
		return r
	}, c.User)
	kind := c39Pick(t, label+"-auth", "good", "good", "good", "good", "good", "good", "none", "wrongpass", "wronguser", "prefix", "swapcase", "scheme", "rawstd", "nospace", "two", "empty", "garbage", "nocolon", "passonly")
	switch kind {
	case "none":
		return nil, kind
	case "wrongpass":
		return h(c39Basic(c.User, c.Pass+"x")), kind
	case "wronguser":
		return h(c39Basic(c.User+"x", c.Pass)), kind
	case "prefix":
		if c.Pass == "" {
			return h(c39Basic(c.User, "y")), kind
		}
		return h(c39Basic(c.User, c.Pass[:len(c.Pass)-1])), kind
	case "swapcase":
		if swap == c.User {
			swap += "x"
		}
		return h(c39Basic(swap, c.Pass)), kind
	case "scheme":
		return h("Bearer " + strings.TrimPrefix(good, "Basic ")), kind
	case "rawstd":
		return h("Basic " + base64.RawStdEncoding.EncodeToString(raw)), kind
	case "nospace":
		return h(strings.Replace(good, " ", "", 1)), kind
	case "two":
		return h(c39Basic(c.User, c.Pass+"x"), good), kind
	case "empty":
		return h("Basic "), kind
	case "garbage":
		return h("Basic !!!not-base64"), kind
	case "nocolon":
		return h("Basic " + base64.StdEncoding.EncodeToString([]byte(c.User+c.Pass))), kind
	case "passonly":
		return h("Basic " + base64.StdEncoding.EncodeToString([]byte(c.Pass))), kind
	}
	return h(good), "good"
}

// c39Dim draws one dimension of a request shape: the canonical value (60%), a variant the decoders accept, or (when
// the 0..9 weight reaches rareFrom) a variant that makes the request unservable / name no handler.
func c39Dim(t *rapid.T, label, canon string, accepted, rare []string, rareFrom int) string {
	switch r := rapid.IntRange(0, 9).Draw(t, label+"-w"); {
	case r >= rareFrom:
		return c39Pick(t, label, rare...)
	case r >= 6:
		return c39Pick(t, label, accepted...)
	}
	return canon
}

func c39FuncOf(full string) string { return full[strings.LastIndexByte(full, '.')+1:] }

// c39GenJrpc draws one JSON-RPC request shape.  `named` tracks which registered handler the standard decoders will
// see (last duplicate wins, escapes decoded) and `servable` whether the shape is one both decoders accept; they only
// feed the non-triviality classification (rq.Target), never the verdict.
func c39GenJrpc(t *rapid.T, c *c39Cfg, label string) c39Req {
	rq := c39Req{Kind: "jrpc", HTTP: "POST", Path: "/"}
	rem := c39GenRemote(t, c, label+"-rem", false)
	rq.Remote = rem.http
	target := c39Pick(t, label+"-target", c39JTargets...)
	named, servable := target, true
	var shape []string
	odd := func(s string, stillServable bool) {
		shape = append(shape, s)
		servable = servable && stillServable
	}
	q := func(s string) string { b, _ := json.Marshal(s); return string(b) }
	mval := q(target)
	switch sp := c39Dim(t, label+"-spell", "exact", []string{"escape"}, []string{"lower", "upper", "prefix", "suffix", "dotdot", "space", "nosvc", "lookalike", "leaddot", "nul", "number"}, 7); sp {
	case "exact":
	case "escape":
		i := rapid.IntRange(0, len(target)-1).Draw(t, label+"-esc")
		mval = fmt.Sprintf(`"%s\u%04x%s"`, target[:i], target[i], target[i+1:])
		odd("m-escape", true)
	default:
		named = ""
		odd("m-"+sp, true)
		f := c39FuncOf(target)
		mval = map[string]string{
			"lower": q(strings.ToLower(target)), "upper": q(strings.ToUpper(target)), "prefix": q("X." + target), "suffix": q(target + ".X"),
			"dotdot": q(strings.Replace(target, ".", "..", 1)), "space": q(target + " "), "nosvc": q(f), "leaddot": q("." + f),
			"lookalike": q(strings.Replace(target, "e", "е", 1)), "nul": q(target + "\x00"), "number": "7"}[sp]
	}
	mkey := c39Dim(t, label+"-mkey", `"method"`, []string{`"Method"`, `"METHOD"`, `"metho\u0064"`}, []string{`"method "`, `"ｍethod"`}, 9)
	switch mkey {
	case `"method"`:
	case `"method "`, `"ｍethod"`:
		named = ""
		odd("key-miss", true)
	default:
		odd("key-variant", true)
	}
	params := c39Dim(t, label+"-params", `[null]`, []string{`[{}]`, `[]`, `[null,1]`}, []string{`{}`, ``, `null`, `"s"`, `[[1]]`}, 9)
	switch params {
	case `[null]`, `[{}]`:
	case `[]`, `[null,1]`:
		odd("params-len", true)
	default:
		odd("params-bad", false)
	}
	id := c39Dim(t, label+"-id", `1`, []string{`0`, `18446744073709551615`, ``, `null`}, []string{`18446744073709551616`, `"7"`, `-1`, `1.5`, `1e2`}, 9)
	switch id {
	case `1`, `0`:
	case `18446744073709551615`, ``, `null`:
		odd("id-edge", true)
	default:
		odd("id-bad", false)
	}
	fields := []string{mkey + ":" + mval}
	if params != "" {
		fields = append(fields, `"params":`+params)
	}
	if id != "" {
		fields = append(fields, `"id":`+id)
	}
	switch c39Pick(t, label+"-extra", "", "", "", "jsonrpc", "nested", "paramsdup") {
	case "jsonrpc":
		fields = append(fields, `"jsonrpc":"2.0"`)
	case "nested":
		fields = append(fields, `"extra":{"method":"Probe.Alpha","x":[1,2,{"y":null}]}`)
		odd("extra-nested", true)
	case "paramsdup":
		fields = append(fields, `"Params":[null]`)
		odd("params-dup", true)
	}
	fields = rapid.Permutation(fields).Draw(t, label+"-order")
	// duplicate method key naming another handler, before or after everything else (the later one is what
	// encoding/json keeps)
	if dup := c39Pick(t, label+"-dup", "", "", "", "", "", "before", "after", "afterCase"); dup != "" {
		other := c39Pick(t, label+"-other", c39JTargets...)
		entry := `"method":` + q(other)
		switch dup {
		case "before":
			fields = append([]string{entry}, fields...)
		case "afterCase":
			entry = `"Method":` + q(other)
			fallthrough
		default:
			fields = append(fields, entry)
			named = other
		}
		odd("dup-"+dup, true)
	}
	body := "{" + strings.Join(fields, ",") + "}"
	switch c39Dim(t, label+"-wrap", "", []string{"ws"}, []string{"bom", "concat", "array", "garbage"}, 9) {
	case "ws":
		body = "\n\t " + body + " \r\n"
		odd("wrap-ws", true)
	case "bom":
		body = "\ufeff" + body
		odd("wrap-bom", false)
	case "concat":
		body = body + `{"method":"Probe.Alpha","params":[null],"id":2}`
		odd("wrap-concat", false)
	case "array":
		body = "[" + body + "]"
		odd("wrap-array", false)
	case "garbage":
		body += "}"
		odd("wrap-garbage", false)
	}
	rq.Body = body
	switch m := c39Dim(t, label+"-http", "POST", []string{"GET", "PUT", "DELETE", "OPTIONS"}, []string{"PREFLIGHT"}, 9); m {
	case "POST":
	case "PREFLIGHT":
		rq.HTTP = "OPTIONS"
		rq.Headers = append(rq.Headers, [2]string{"Access-Control-Request-Method", "POST"}, [2]string{"Origin", "http://evil.example"})
		odd("http-preflight", false)
	default:
		rq.HTTP = m
		odd("http-"+m, true)
	}
	switch p := c39Dim(t, label+"-path", "/", []string{"/?method=Probe.Alpha"}, []string{"/x", "//", "/."}, 9); p {
	case "/":
	case "/?method=Probe.Alpha":
		rq.Path = p
		odd("path-query", true)
	default:
		rq.Path = p
		odd("path-other", false)
	}
	switch c39Dim(t, label+"-enc", "", []string{"accept-gzip", "origin"}, []string{"gzip-body"}, 9) {
	case "accept-gzip":
		rq.Headers = append(rq.Headers, [2]string{"Accept-Encoding", "gzip"})
		odd("accept-gzip", true)
	case "origin":
		rq.Headers = append(rq.Headers, [2]string{"Origin", "http://evil.example"})
		odd("origin", true)
	case "gzip-body":
		rq.GzipBody = true
		rq.Headers = append(rq.Headers, [2]string{"Content-Encoding", "gzip"})
		odd("gzip-body", false)
	}
	auth, akind := c39GenAuth(t, c, label)
	rq.Headers = append(rq.Headers, auth...)
	if servable && named != "" {
		rq.Target = c39FuncOf(named)
	}
	if len(shape) == 0 {
		shape = []string{"canonical"}
	}
	rq.Shape = strings.Join(shape, "+") + "|addr-" + rem.class + "|auth-" + akind
	return rq
}

func c39GenGrpc(t *rapid.T, c *c39Cfg, label string) c39Req {
	rem := c39GenRemote(t, c, label+"-rem", true)
	f := c39Pick(t, label+"-func", "Version", "IsSync", "GetLastHeader", "Version", "IsSync", "GetLastHeader", "SubEvent", "SubEvent", "ServerReflectionInfo")
	rq := c39Req{Kind: "grpc", Remote: rem.ip, FullMethod: "/types.chain33/" + f, Target: f, Shape: "canonical"}
	switch f {
	case "SubEvent":
		rq.Kind = "grpcstream"
	case "ServerReflectionInfo":
		rq.Kind, rq.FullMethod = "grpcreflect", c39Reflect
	default:
		if sp := c39Pick(t, label+"-spell", "", "", "", "", "", "", "lower", "svccase", "trail", "prefix", "dslash", "nosvc", "dotted"); sp != "" {
			rq.Target, rq.Shape = "", "m-"+sp
			rq.FullMethod = map[string]string{"lower": "/types.chain33/" + strings.ToLower(f), "svccase": "/types.Chain33/" + f, "trail": "/types.chain33/" + f + "/",
				"prefix": "/x/types.chain33/" + f, "dslash": "/types.chain33//" + f, "nosvc": "/" + f, "dotted": "/types.chain33/Chain33." + f}[sp]
		}
	}
	if rapid.IntRange(0, 5).Draw(t, label+"-gzip") == 0 {
		rq.GzipCall = true
		rq.Shape += "+gzip"
	}
	rq.Shape += "|addr-" + rem.class
	return rq
}

// c39DiffLegs: the same client address on the three endpoints, each time asking for a method that every method
// list permits (so that only the address decides) with correct credentials.  A leg is omitted when the generated
// method lists permit none of the handlers.
func c39DiffLegs(c *c39Cfg, group int, rem c39Remote) (legs []c39Req) {
	legs = append(legs, c39Req{Kind: "eth", Remote: rem.http, HTTP: "POST", Path: "/", Body: c39EthBody, Headers: [][2]string{{"Content-Type", "application/json"}}, Group: group, Shape: "diff|addr-" + rem.class})
	for _, full := range c39JTargets {
		if f := c39FuncOf(full); f != "CloseQueue" && c39White(c.JWhite, f) && !c39In(c.JBlack, f) {
			rq := c39Req{Kind: "jrpc", Remote: rem.http, HTTP: "POST", Path: "/", Body: `{"method":"` + full + `","params":[null],"id":1}`, Group: group, Target: f, Shape: "diff|addr-" + rem.class}
			if c.User != "" || c.Pass != "" {
				rq.Headers = [][2]string{{"Authorization", c39Basic(c.User, c.Pass)}}
			}
			legs = append(legs, rq)
			break
		}
	}
	for _, f := range c39GUnary {
		if c39White(c.GWhite, f) && !c39In(c.GBlack, f) {
			legs = append(legs, c39Req{Kind: "grpc", Remote: rem.ip, FullMethod: "/types.chain33/" + f, Group: group, Target: f, Shape: "diff|addr-" + rem.class})
			break
		}
	}
	return legs
}

func c39Sanity(c *c39Cfg) []c39Req {
	legs := c39DiffLegs(&c39Cfg{User: c.User, Pass: c.Pass}, 0, c39Remote{"127.0.0.1:4000", "127.0.0.1", "loop4"})[:2]
	for i := range legs {
		legs[i].Sanity, legs[i].Target, legs[i].Shape = true, "", ""
	}
	return legs
}

func c39GenCase(t *rapid.T) (*c39Case, string) {
	c, key := c39GenCfg(t)
	cs := &c39Case{Cfg: c, Reqs: c39Sanity(c)}
	nj, ng, nd := c39EnvInt("C39_NJ", 120), c39EnvInt("C39_NG", 30), c39EnvInt("C39_ND", 8)
	for i := 0; i < nj; i++ {
		cs.Reqs = append(cs.Reqs, c39GenJrpc(t, c, fmt.Sprintf("j%d", i)))
	}
	for i := 0; i < ng; i++ {
		cs.Reqs = append(cs.Reqs, c39GenGrpc(t, c, fmt.Sprintf("g%d", i)))
	}
	for i := 0; i < nd; i++ {
		cs.Reqs = append(cs.Reqs, c39DiffLegs(c, i+1, c39GenRemote(t, c, fmt.Sprintf("d%d", i), true))...)
	}
	return cs, key
}

func c39EnvInt(name string, def int) int {
	var v int
	if _, err := fmt.Sscanf(os.Getenv(name), "%d", &v); err == nil && v > 0 {
		return v
	}
	return def
}

// c39Account fills the evidence counters.  Non-trivial (the property's rule): (a) a servable request from a
// non-loopback client aimed at a registered handler for which exactly one access-control clause fails, so that the
// verdict hinges on that clause alone; (b) a three-endpoint comparison for a non-loopback client under a
// configuration that uses the legacy `whitlist` key.
func c39Account(cs *c39Case, obs []c39Obs, key string) {
	c := cs.Cfg
	lib.Class("cfg:ipkey-" + key)
	if c.User != "" || c.Pass != "" {
		lib.Class("cfg:auth-on")
	}
	seenGroup := map[int]bool{}
	for i := range cs.Reqs {
		rq := &cs.Reqs[i]
		if rq.Sanity {
			continue
		}
		lib.Eval()
		cl := c39ParseRemote(rq.Kind, rq.Remote)
		ran := len(obs[i].Ran) > 0
		outcome := map[bool]string{true: "ran", false: "not-run"}[ran]
		for _, part := range strings.Split(rq.Shape, "|") {
			for _, s := range strings.Split(part, "+") {
				lib.Class(rq.Kind + ":" + s)
			}
		}
		switch {
		case cl.loopback():
			lib.Class(rq.Kind + ":loopback-" + outcome)
		case rq.Kind == "eth":
			lib.Class("eth:remote-" + outcome)
		default:
			lib.Class(rq.Kind + ":remote-" + outcome)
			if rq.Target != "" {
				failed := c.clauses(rq, cl, rq.Target)
				switch len(failed) {
				case 0:
					lib.Class(rq.Kind + ":all-clauses-hold-" + outcome)
					if !ran && os.Getenv("C39_DEBUG") != "" {
						b, _ := json.Marshal(map[string]interface{}{"cfg": c, "rq": rq, "obs": obs[i]})
						fmt.Printf("C39-DEBUG permitted but not run: %s\n", b)
					}
				case 1:
					lib.Class(rq.Kind + ":only-" + strings.ReplaceAll(failed[0], " ", "-"))
					lib.NonTrivialCase(map[string]interface{}{"cfg": c, "request": rq, "single_failing_clause": failed[0]})
				default:
					lib.Class(rq.Kind + ":several-clauses-fail")
				}
			}
		}
		if rq.Group > 0 && !seenGroup[rq.Group] && !cl.loopback() && len(c.Whitlist) > 0 {
			seenGroup[rq.Group] = true
			lib.Class("diff:legacy-key-nonloopback")
			lib.NonTrivialCase(map[string]interface{}{"cfg": c, "three_endpoint_comparison_for": rq.Remote})
		}
	}
}

// ---- tests ------------------------------------------------------------------------------------------------------

func TestPropC39AccessControl(t *testing.T) {
	defer lib.Flush()
	rapid.Check(t, func(t *rapid.T) {
		cs, key := c39GenCase(t)
		obs := c39RunChild(cs)
		c39Account(cs, obs, key)
		for _, f := range c39Judge(cs, obs) {
			if f.Known != "" && lib.Known(f.Known) {
				lib.ExcludedKnown(f.Known) // tolerated by exact signature; the pinned test reports it
				continue
			}
			lib.Violation(t, c39Prop, "TestPropC39AccessControl", f, "%s", f.Msg)
		}
	})
}

// c39Pinned runs a fixed case: a finding that matches signature id is a known finding (if listed) or a violation;
// any other finding is a violation.
func c39Pinned(t *testing.T, name, id, what string, cs *c39Case) {
	defer lib.Flush()
	cs.Reqs = append(c39Sanity(cs.Cfg), cs.Reqs...)
	for _, f := range c39Judge(cs, c39RunChild(cs)) {
		if f.Known == id {
			lib.KnownOrViolation(t, c39Prop, name, id, f, what+": "+f.Msg)
			continue
		}
		lib.Violation(t, c39Prop, name, f, "%s", f.Msg)
	}
}

// Only the legacy key `whitlist` lists an address; a client at another address must be refused by all three endpoints.
func TestKnown_EthLegacyWhitlist(t *testing.T) {
	c := &c39Cfg{Whitlist: []string{"10.1.2.3"}}
	c39Pinned(t, "TestKnown_EthLegacyWhitlist", c39EthID,
		"ethrpc reads only rpc.whitelist, so with the legacy key rpc.whitlist it admits addresses the JSON-RPC and gRPC endpoints refuse",
		&c39Case{Cfg: c, Reqs: c39DiffLegs(c, 1, c39Remote{"10.9.9.9:5555", "10.9.9.9", "unlisted"})})
}

// A client that is not on the IP whitelist calls the server-streaming gRPC method SubEvent, which is also blacklisted.
func TestKnown_GrpcStreamUngated(t *testing.T) {
	c := &c39Cfg{Whitelist: []string{"10.1.2.3"}, GBlack: []string{"SubEvent"}}
	c39Pinned(t, "TestKnown_GrpcStreamUngated", c39StreamID,
		"streaming gRPC methods bypass the access-control interceptor (only a unary interceptor is installed)",
		&c39Case{Cfg: c, Reqs: []c39Req{
			{Kind: "grpcstream", Remote: "10.9.9.9", FullMethod: "/types.chain33/SubEvent"},
			{Kind: "grpcstream", Remote: "10.1.2.3", FullMethod: "/types.chain33/SubEvent"},
			{Kind: "grpc", Remote: "10.9.9.9", FullMethod: "/types.chain33/Version"}}})
}
